"""C17 — DIP references: injection, import, base environment / remote source.

Inputs are DIP *text* (and files in a per-run scratch directory) given to the real front end;
the same structured program is given to the Lean model (line records) and to the Lean
specification (abstract statements with absolute paths)."""
import atexit
import copy
import json
import os
import shutil
import tempfile
from fractions import Fraction
from pathlib import Path

from harness import core
from harness.util import rel_close

RULE = ("generated programs: a source tree (depth <= 4, bool/int/float/str scalars and 1-3-d arrays, floats with "
        "units) defined locally, in a second file of the scratch directory, or in a base environment parsed "
        "earlier; then injections into every kind of host line (definitions, modifications, `$unit name = {ref}` with "
        "and without own unit, option lines `= {ref}`, bare-reference `@case {ref}` clauses of if/else-if chains), every "
        "slice form, own/adopted units, imports "
        "({?p.*}, {?p}, {?*}, bare under a group and prefixed), later modifications of source, host and imported "
        "nodes, property lines; plus a malformed stream (no/several matches, empty imports, bad slices, unknown "
        "sources), histories of parses over files rewritten between the parses, base environments without nodes "
        "(empty / units prelude) parsed on twice, imports of remote custom units with and without a clashing local "
        "name, and the corpus of recon inputs "
        "first; non-trivial = program with at least one injection or "
        "import that the specification accepts or rejects (not 'outside'); distinct = canonical JSON of the program")
ASSUMPTIONS = [
    "no functions or templates, and expressions only as `('{?node} * k')` definitions whose value the harness delivers "
    "to model and specification as a literal (evaluation is C18's; C17 needs them for imports of expression-defined nodes); @case only as flat if/else-if/else "
    "chains closed by @end whose conditions are literals or bare references to boolean nodes and whose bodies are "
    "indented deeper (nesting, expression conditions and the closing rules are C15's; its check covers them); "
    "!condition lines are always-true comparisons, formats permissive, options contain every value the node takes (C16)",
    "hosts of an injection covered: typed definitions, modifications, $unit definitions, option lines, @case clauses; "
    "a reference as the value of !format / !tags / !description / $source delivers text without a unit and is not generated",
    "values as structured literals: the text <-> literal map (lexer, json) is C13's; numbers are decimals with <= 3 "
    "digits after the point, compared with relative tolerance 1e-9; integer nodes are dimensionless, except dedicated "
    "integer nodes with a unit that are re-stated only in a larger unit of the same dimension (values stay integral)",
    "host and source have the same datatype, or a float host takes an int source; slices only on definition lines "
    "(a slice on a modification line is always refused by the code); no empty strings; 'none' values are outside the "
    "Lean model (its rawValue falls back to the raw value when a node holds no value) and covered by a separate TEXT-level stream with a "
    "direct oracle: a node given a value and then assigned `none` delivers none to a later injection (definition, own unit, "
    "modification) and import ({?p}, {?p.*}), an earlier reference keeps the value, units follow the host-else-source rule",
    "an imported node whose destination path already exists (declared or defined) is assigned to that node like a "
    "modification: same type required, current value converted into the existing node's unit, the existing "
    "node keeps its own constraints; remote files define no further sources and modify only nodes they define",
    "the base environment's *sources* list grows by design when DIP(base) is constructed; only nodes and units "
    "of the base are required to stay unchanged",
    "unit conversion uses the regenerated affine table (a*x+b into the first unit of the dimension) of the 12 units "
    "the generator uses, temperatures K/Cel/degF included (Generated/C17Units.lean); the table is cross-checked "
    "against live Quantity conversions on every run",
    "custom units `$unit name = value unit` with a linear unit extend the conversion table of their program "
    "(1 [name] = value * unit); a program uses a custom unit in nodes only after defining or importing it, and names "
    "are unique per program except in the clash programs, which end at the refused `$unit {src?*}` line",
    "an impl != model difference on a program the specification calls 'outside' (malformed programs, ill-formed "
    "slices / query texts) is counted and noted, never a failure",
    "C17_base_unchanged / C17_query_copy_deep are proved for the heap view of copy.deepcopy (fresh objects + writes "
    "through the copy's addresses only); that the real objects are not shared is checked on every run by snapshots, "
    "by property lines attached to imported copies and by second imports of the same request",
]
EXPLANATION = ("theorems: query = filter+rename characterisation and the three import forms, injection delivers the "
               "current value cut by slice_value, slice_value = Python slicing (all slice lists, text included), unit rule, "
               "count rejection, empty import rejected, deep-copy frame properties (environment copy; query copy deep in "
               "every mutable attribute), slice laws, and a refinement theorem: for flat programs of definitions, "
               "modifications, injections and imports the model's main loop computes exactly the specification's "
               "path-keyed environment (C17_refinement_partial)")
EXTRA_OBLIGATIONS = ["SciVerif.C17.unitTable_wf"]

UNITS = ["m", "cm", "km", "mm", "s", "ms", "min", "g", "kg", "K", "Cel", "degF"]
FAMILIES = [["m", "cm", "km", "mm"], ["s", "ms", "min"], ["g", "kg"], ["K", "Cel", "degF"]]

_scratch = None


def scratch():
    global _scratch
    if _scratch is None:
        _scratch = tempfile.mkdtemp(prefix="c17_")
        atexit.register(shutil.rmtree, _scratch, True)
    return _scratch


# ------------------------------------------------------------------ unit table (translator)
_tbl = None


def unit_table():
    """[symbol, dimension id, [a_num, a_den], [b_num, b_den]] re-extracted from the live unit objects:
    value in the first unit of that dimension = a*x + b (b != 0 only for temperatures)."""
    global _tbl
    if _tbl is not None:
        return _tbl
    from scinumtools.units import Quantity
    dims, rows = [], []
    first = {}

    def conv(x, u, v):
        return float(Quantity(float(x), u).value(v))
    for u in UNITS:
        q = Quantity(1.0, u)
        d = tuple(str(x) for x in q.baseunits.dimensions.value())
        if d not in dims:
            dims.append(d)
            first[d] = u
        f0 = conv(0.0, u, first[d])
        a = Fraction((conv(1000.0, u, first[d]) - f0) / 1000.0).limit_denominator(10 ** 6)
        b = Fraction(f0).limit_denominator(10 ** 6)
        rows.append([u, dims.index(d), [a.numerator, a.denominator], [b.numerator, b.denominator]])
    # the affine table must reproduce the live conversions, and only units of one dimension convert
    for r1 in rows:
        for r2 in rows:
            try:
                got = [conv(x, r1[0], r2[0]) for x in (-40.0, 0.0, 12.5, 300.0)]
                ok = True
            except Exception:
                ok = False
            if ok != (r1[1] == r2[1]):
                raise RuntimeError("unit table: convertibility of %s -> %s is %s" % (r1[0], r2[0], ok))
            if ok:
                a1, b1, a2, b2 = Fraction(*r1[2]), Fraction(*r1[3]), Fraction(*r2[2]), Fraction(*r2[3])
                for x, g in zip((-40.0, 0.0, 12.5, 300.0), got):
                    want = float((a1 * Fraction(x) + b1 - b2) / a2)
                    if not rel_close(g, want, 1e-9, 1e-9):
                        raise RuntimeError("unit table: %s -> %s at %s gives %r, affine table %r" % (r1[0], r2[0], x, g, want))
    _tbl = rows
    return rows


def lean_str(s):
    return "[" + ", ".join("'%s'" % c for c in s) + "]"


def gen_tables(ctx):
    rows = unit_table()
    body = ",\n".join("  (%s, %d, (%d : Rat) / %d, (%d : Rat) / %d)" % (lean_str(u), d, n, m, bn, bm)
                      for u, d, (n, m), (bn, bm) in rows)
    src = ("import SciVerif.Model.C17\n"
           "/-! GENERATED by harness/props/c17.py from the live unit objects of /repo — do not edit. -/\n"
           "namespace SciVerif.C17\n\n"
           "def unitTable : UnitTable := [\n%s]\n\n"
           "/-- every scale factor is positive and symbols are distinct: conversions are invertible -/\n"
           "theorem unitTable_wf : (unitTable.all (fun e => decide (0 < e.2.2.1))) = true ∧\n"
           "    (unitTable.map (·.1)).Nodup := by decide +kernel\n\n"
           "end SciVerif.C17\n") % body
    p = core.LEAN / "SciVerif" / "Generated" / "C17Units.lean"
    return ["Generated/C17Units.lean"] if core.write_if_changed(p, src) else []


# ------------------------------------------------------------------ values
def num(n, d=0):
    """number literals are kept as decimal text (JSON-friendly): {"n": "34.5"}"""
    return {"n": num_text(Fraction(n, 10 ** d))}


def is_num(v):
    return isinstance(v, dict) and "n" in v


def num_text(q):
    q = Fraction(q)
    if q.denominator == 1:
        return str(q.numerator)
    for d in (1, 2, 3):
        if (q * 10 ** d).denominator == 1:
            s = "%d" % abs(q * 10 ** d).numerator
            s = s.rjust(d + 1, "0")
            return ("-" if q < 0 else "") + s[:-d] + "." + s[-d:]
    raise ValueError(q)


def val_text(v, top=True):
    if isinstance(v, bool):
        return "true" if v else "false"
    if is_num(v):
        return v["n"]
    if isinstance(v, str):
        return '"%s"' % v
    return "[" + ",".join(val_text(x, False) for x in v) + "]"


def val_json(v):
    if isinstance(v, bool):
        return {"b": v}
    if is_num(v):
        q = Fraction(v["n"])
        return {"q": [q.numerator, q.denominator]}
    if isinstance(v, str):
        return {"s": v}
    return {"a": [val_json(x) for x in v]}


def from_val_json(j):
    if j is None:
        return None
    if "q" in j:
        return Fraction(j["q"][0], j["q"][1])
    if "b" in j:
        return j["b"]
    if "s" in j:
        return j["s"]
    return [from_val_json(x) for x in j["a"]]


def same_val(a, b):
    """impl value (python scalars / lists) against model/spec value (Fraction / bool / str / list)."""
    if isinstance(b, list):
        return isinstance(a, list) and len(a) == len(b) and all(same_val(x, y) for x, y in zip(a, b))
    if isinstance(b, bool):
        return isinstance(a, bool) and a == b
    if isinstance(b, str):
        return isinstance(a, str) and a == b
    if isinstance(b, Fraction):
        return isinstance(a, (int, float)) and not isinstance(a, bool) and rel_close(a, float(b), 1e-9, 1e-10)
    return a is None and b is None


def py_shape(v):
    s = []
    while isinstance(v, list):
        s.append(len(v))
        v = v[0] if v else None
    return s


# ------------------------------------------------------------------ rendering of a program
def dims_text(dims):
    if not dims:
        return ""
    out = []
    for lo, hi in dims:
        if lo is not None and lo == hi:
            out.append(str(lo))
        else:
            out.append("%s:%s" % ("" if lo is None else lo, "" if hi is None else hi))
    return "[" + ",".join(out) + "]"


def slices_text(sl):
    if not sl:
        return ""
    out = []
    for s in sl:
        if s[0] == "idx":
            out.append(str(s[1]))
        else:
            out.append("%s:%s" % ("" if s[1] is None else s[1], "" if s[2] is None else s[2]))
    return "[" + ",".join(out) + "]"


def query_text(q):
    if q[0] == "all":
        return "*"
    if q[0] == "children":
        return ".".join(q[1]) + ".*"
    return ".".join(q[1])


def ref_text(r):
    return "%s?%s" % (r.get("source") or "", query_text(r["q"]))


def value_text(val):
    if "expr" in val:
        return val["expr"]      # the text is an expression; model and specification get its value ("lit")
    if "lit" in val:
        return val_text(val["lit"])
    return "{%s}%s" % (ref_text(val["ref"]), slices_text(val["ref"].get("slices")))


def line_text(l):
    ind = " " * l["indent"]
    k = l["k"]
    if k == "group":
        return ind + l["name"]
    if k == "def":
        s = "%s%s %s%s = %s" % (ind, l["name"], l["kw"], dims_text(l.get("dims")), value_text(l["val"]))
        return s + (" " + l["unit"] if l.get("unit") else "")
    if k == "decl":
        s = "%s%s %s%s" % (ind, l["name"], l["kw"], dims_text(l.get("dims")))
        return s + (" " + l["unit"] if l.get("unit") else "")
    if k == "mod":
        s = "%s%s = %s" % (ind, l["name"], value_text(l["val"]))
        return s + (" " + l["unit"] if l.get("unit") else "")
    if k == "imp":
        ref = "{%s?%s}" % (l.get("source") or "", query_text(l["q"]))
        return ind + (l["prefix"] + " " + ref if l.get("prefix") else ref)
    if k == "unit":
        rhs = value_text(l["val"]) if "val" in l else l["value"]
        return "%s$unit %s = %s%s" % (ind, l["name"], rhs, " " + l["unit"] if l.get("unit") else "")
    if k == "unitimp":
        return "%s$unit {%s?%s}" % (ind, l["source"], l.get("name") or "*")
    if k == "case":
        if l["kind"] == "cond":
            return "%s@case %s" % (ind, value_text(l["val"]))
        return ind + ("@else" if l["kind"] == "else" else "@end")
    if k == "prop":
        p = l["p"]
        if p == "constant":
            return ind + "!constant"
        if p == "condition":
            return ind + "!condition ('%s')" % l["v"]
        if p == "format":
            return ind + "!format '%s'" % l["v"]
        if p == "tags":
            return ind + "!tags " + json.dumps(l["v"], separators=(",", ":"))
        if p == "description":
            return ind + '!description "%s"' % l["v"]
        if p == "option" and "val" in l:
            return ind + "= " + value_text(l["val"]) + (" " + l["unit"] if l.get("unit") else "")
        if p == "option":
            return ind + "= " + ('"%s"' % l["v"] if l.get("quoted") else l["v"]) + (" " + l["unit"] if l.get("unit") else "")
    raise ValueError(l)


def text_of(lines):
    return "\n".join(line_text(l) for l in lines)


def slice_objects(sl):
    """value_slice as Parser.part_slice stores it: integer indices and slice objects"""
    return [s[1] if s[0] == "idx" else slice(s[1], s[2]) for s in (sl or [])]


def model_item(l):
    k = l["k"]
    if k == "unit":
        if "val" in l:
            return {"t": "unit", "name": l["name"], "ref": ref_text(l["val"]["ref"]), "unit": l.get("unit")}
        return {"t": "unit", "name": l["name"], "value": val_json({"n": l["value"]}), "unit": l.get("unit")}
    if k == "unitimp":
        return {"t": "unitimp", "source": l["source"], "name": l.get("name")}
    if k == "case":
        it = {"t": "case", "indent": l["indent"], "kind": l["kind"]}
        if l["kind"] == "cond":
            if "lit" in l["val"]:
                it["raw"] = val_json(l["val"]["lit"])
            else:
                it["ref"] = ref_text(l["val"]["ref"])
        return it
    if k == "prop" and l["p"] == "option":
        if "val" in l:
            return {"t": "optref", "ref": ref_text(l["val"]["ref"]), "unit": l.get("unit")}
        return {"t": "prop", "p": "option", "v": option_val(l), "unit": l.get("unit")}
    if k == "prop":
        return {"t": "prop", "p": l["p"], "v": l.get("v"), "unit": l.get("unit")}
    if k == "group":
        return {"t": "node", "name": l["name"], "indent": l["indent"], "kw": "group"}
    if k == "imp":
        ref = "%s?%s" % (l.get("source") or "", query_text(l["q"]))
        name = (l["prefix"] + ".{" if l.get("prefix") else "{") + ref + "}"
        return {"t": "node", "name": name, "indent": l["indent"], "kw": "import", "ref": ref}
    if k == "decl":
        return {"t": "node", "name": l["name"], "indent": l["indent"], "kw": l["kw"], "dims": l.get("dims") or [],
                "unit": l.get("unit"), "raw": None, "defined": True}
    it = {"t": "node", "name": l["name"], "indent": l["indent"], "kw": l["kw"] if k == "def" else "mod",
          "dims": l.get("dims") or [], "unit": l.get("unit")}
    if "lit" in l["val"]:
        it["raw"] = val_json(l["val"]["lit"])
    else:
        r = l["val"]["ref"]
        it["ref"] = ref_text(r)
        it["slice"] = r.get("slices") or []
        it["raw"] = None
    return it


def option_val(l):
    """the literal of an option line as a value: text for str nodes, a number otherwise"""
    return val_json(l["v"] if l.get("quoted") else {"n": l["v"]})


def spec_val(val):
    if "lit" in val:
        return {"lit": val_json(val["lit"])}
    r = val["ref"]
    return {"source": r.get("source"), "query": r["q"], "slices": r.get("slices") or []}


def spec_stmt(l):
    k = l["k"]
    if k == "group":
        return None
    if k == "unit":
        v = spec_val(l["val"]) if "val" in l else {"lit": val_json({"n": l["value"]})}
        return {"t": "unitdef", "name": l["name"], "v": v, "unit": l.get("unit")}
    if k == "unitimp":
        return {"t": "unitimp", "source": l["source"], "name": l.get("name")}
    if k == "case":
        if l["kind"] == "cond":
            return {"t": "case", "v": spec_val(l["val"])}
        return {"t": l["kind"]}
    if k == "def":
        return {"t": "def", "path": l["path"], "kw": l["kw"], "dims": l.get("dims") or [], "v": spec_val(l["val"]),
                "unit": l.get("unit")}
    if k == "decl":
        return {"t": "decl", "path": l["path"], "kw": l["kw"], "dims": l.get("dims") or [], "unit": l.get("unit")}
    if k == "mod":
        return {"t": "mod", "path": l["path"], "v": spec_val(l["val"]), "unit": l.get("unit")}
    if k == "imp":
        return {"t": "imp", "path": l["dest"], "source": l.get("source"), "query": l["q"]}
    if k == "prop" and l["p"] == "option":
        v = spec_val(l["val"]) if "val" in l else {"lit": option_val(l)}
        return {"t": "option", "path": l["path"], "v": v, "unit": l.get("unit")}
    if k == "prop":
        return {"t": l["p"], "path": l["path"], "v": l.get("v"), "unit": l.get("unit")}
    raise ValueError(l)


def stmts_of(lines):
    return [s for s in (spec_stmt(l) for l in lines) if s is not None]


def program_table(prog):
    """the regenerated unit table plus the program's custom units `$unit name = value unit` (literal, linear unit):
    1 [name] = value * unit"""
    tbl = list(unit_table())
    known = {r[0]: r for r in tbl}
    seen = set()
    lines = [l for s_ in prog["sources"] for l in s_["lines"]] + (prog.get("base") or []) + prog["main"]
    for l in lines:
        if l["k"] == "unit" and "value" in l and l.get("unit") in known and l["name"] not in seen:
            r = known[l["unit"]]
            if r[3][0] != 0:
                continue
            seen.add(l["name"])
            a = Fraction(l["value"]) * Fraction(r[2][0], r[2][1])
            tbl.append(["[%s]" % l["name"], r[1], [a.numerator, a.denominator], [0, 1]])
    return tbl


def request_of(prog):
    return {"p": "C17", "k": "prog", "tbl": program_table(prog),
            "model": {"sources": [{"name": s["name"], "items": [model_item(l) for l in s["lines"]]} for s in prog["sources"]],
                      "base": None if prog.get("base") is None else [model_item(l) for l in prog["base"]],
                      "main": [model_item(l) for l in prog["main"]]},
            "spec": {"sources": [{"name": s["name"], "stmts": stmts_of(s["lines"])} for s in prog["sources"]],
                     "base": None if prog.get("base") is None else stmts_of(prog["base"]),
                     "main": stmts_of(prog["main"])}}


# ------------------------------------------------------------------ the real code
_keep = []          # DIP objects are kept alive: their names derive from id()
_counter = [0]


def canon(v):
    import numpy as np
    if isinstance(v, np.ndarray):
        v = v.tolist()
    if isinstance(v, (list, tuple)):
        return [canon(x) for x in v]
    if isinstance(v, (bool, np.bool_)):
        return bool(v)
    if isinstance(v, np.generic):
        return v.item()
    return v


def node_record(n):
    from scinumtools.dip.datatypes import Type
    val = n.value
    rec = {"name": n.name, "kw": n.keyword,
           "value": canon(val.value) if isinstance(val, Type) else ("<no Type>" if val is not None else None),
           "vunit": getattr(val, "unit", None) if isinstance(val, Type) else None,
           "unit": n.units_raw or None,
           "constant": bool(n.constant), "condition": n.condition, "format": getattr(n, "format", None),
           "tags": list(getattr(n, "tags", None) or []),
           "options": [[str(o.value_raw), o.units_raw or None] for o in (getattr(n, "options", None) or [])],
           "description": getattr(n, "description", None),
           "dims": [[a, b] for a, b in (n.dimension or [])]}
    return rec


def env_snapshot(env):
    from scinumtools.dip.settings import Format
    try:
        data = env.data(Format.TUPLE)
        data = {k: canon(v) for k, v in data.items()}
    except Exception as e:
        data = "data() raised %s" % type(e).__name__
    try:
        types = {k: type(v).__name__ for k, v in env.data(Format.TYPE).items()}
    except Exception as e:
        types = "data(TYPE) raised %s" % type(e).__name__
    return {"nodes": [node_record(n) for n in env.nodes], "data": data, "types": types,
            "units": {k: {a: canon(b) if not isinstance(b, tuple) else list(b) for a, b in v.items() if a != "source"}
                      for k, v in env.units.items()}}


def sources_snapshot(env, names):
    out = {}
    for nm in names:
        try:
            src = env.sources[nm]
            out[nm] = [node_record(n) for n in (src.nodes or [])]
        except Exception as e:
            out[nm] = "missing %s" % type(e).__name__
    return out


def feed(p, lines):
    """hands the lines to the real front end: text through add_string, literal `$unit` lines at the root through the
    API DIP.add_unit (which queues the same line); the order of the lines is kept"""
    seg = []
    for l in lines:
        if l["k"] == "unit" and "value" in l and l["indent"] == 0:
            if seg:
                p.add_string(text_of(seg))
                seg = []
            p.add_unit(l["name"], l["value"], l.get("unit"))
        else:
            seg.append(l)
    if seg or not lines:
        p.add_string(text_of(seg))


def run_impl(prog, file_tag=None, keep_files=False):
    """Runs the real front end.  Returns dict(status, env snapshot, base before/after, sources).
    `file_tag`: fixed file-name stem (histories rewrite the same files between parses)."""
    from scinumtools.dip import DIP
    d = scratch()
    _counter[0] += 1
    tag = "p%d" % _counter[0]
    paths = {}
    for s in prog["sources"]:
        fp = os.path.join(d, "%s_%s.dip" % (file_tag or tag, s["name"]))
        with open(fp, "w") as f:
            f.write(text_of(s["lines"]) + "\n")
        paths[s["name"]] = fp
    out = {"status": "ok"}
    names = [s["name"] for s in prog["sources"]]
    try:
        try:
            base_env = None
            if prog.get("base") is not None:
                p1 = DIP(name=tag + "b")
                _keep.append(p1)
                for nm in names:
                    p1.add_source(nm, paths[nm])
                feed(p1, prog["base"])
                try:
                    base_env = p1.parse()
                except Exception as e:
                    out["status"] = "base_err"
                    out["error"] = "%s: %s" % (type(e).__name__, str(e)[:200])
                    return out
                out["base_before"] = env_snapshot(base_env)
                out["base_src_before"] = sources_snapshot(base_env, names)
                p2 = DIP(base_env, name=tag + "m")
            else:
                p2 = DIP(name=tag + "m")
                for nm in names:
                    p2.add_source(nm, paths[nm])
            _keep.append(p2)
            try:
                feed(p2, prog["main"])
                env = p2.parse()
                out["env"] = env_snapshot(env)
                out["sources"] = sources_snapshot(env, names)
            except Exception as e:
                out["status"] = "err"
                out["error"] = "%s: %s" % (type(e).__name__, str(e)[:200])
            if base_env is not None:
                out["base_after"] = env_snapshot(base_env)
                out["base_src_after"] = sources_snapshot(base_env, names)
                # the same program once more on the same base: it must see the base as the first parse saw it
                p3 = DIP(base_env, name=tag + "n")
                _keep.append(p3)
                try:
                    feed(p3, prog["main"])
                    second = {"status": "ok", "env": env_snapshot(p3.parse())}
                except Exception as e:
                    second = {"status": "err"}
                first = {"status": out["status"], "env": out.get("env")} if out["status"] == "ok" else {"status": "err"}
                out["second_same"] = (first == second)
                out["base_after2"] = env_snapshot(base_env)
        finally:
            del _keep[:-40]
    finally:
        if not keep_files:
            for fp in paths.values():
                try:
                    os.remove(fp)
                except OSError:
                    pass
    return out


# ------------------------------------------------------------------ comparison
ATTRS = ["kw", "unit", "value", "constant", "condition", "format", "tags", "options", "description", "dims"]


def lean_rec(j):
    r = dict(j)
    r["value"] = from_val_json(j.get("value"))
    r["options"] = [[from_val_json(a), b] for a, b in j.get("options", [])]
    r["dims"] = [[a, b] for a, b in j.get("dims", [])]
    return r


def rec_diff(impl, lean):
    """first attribute on which an impl node record differs from a model/spec record"""
    for a in ATTRS:
        if a == "value":
            if not same_val(impl["value"], lean["value"]):
                return a
        elif a == "unit":
            if impl["unit"] != lean["unit"]:
                return a
            isnum = impl["kw"] in ("int", "float")
            if isnum and impl["value"] is not None and impl["vunit"] != lean["unit"]:
                return "value.unit"
        elif a == "options":
            if len(impl[a]) != len(lean[a]):
                return a
            for (ir, iu), (lv, lu) in zip(impl[a], lean[a]):
                if iu != lu:
                    return a
                if impl["kw"] in ("int", "float"):
                    try:
                        iv = float(ir)
                    except ValueError:
                        return a
                else:
                    iv = ir
                if not same_val(iv, lv):
                    return a
        elif impl[a] != lean[a]:
            return a
    return None


def units_diff(impl_units, lean_units):
    """custom units of the real environment against model / specification: names, values, units"""
    iu = [[k[1:-1], v["value"], v["units"] or None] for k, v in impl_units.items()]
    if [x[0] for x in iu] != [u[0] for u in lean_units]:
        return "names"
    for (n, iv, un), (_, lv, lu) in zip(iu, lean_units):
        try:
            if not same_val(float(iv), from_val_json(lv)):
                return "value"
        except (TypeError, ValueError):
            return "value"
        if un != lu:
            return "unit"
    return None


def origins(prog):
    """name -> 'inject' | 'import' for the hosts / destinations of the main text"""
    o = {}
    for l in prog["main"]:
        if l["k"] in ("def", "mod") and "ref" in l["val"]:
            o[".".join(l["path"])] = "inject"
    dests = [".".join(l["dest"]) for l in prog["main"] if l["k"] == "imp"]
    return o, dests


def origin_of(name, prog):
    o, dests = origins(prog)
    if name in o:
        return "inject"
    if any(name == d or name.startswith(d + ".") or d == "" for d in dests):
        return "import"
    return "plain"


def special_class(prog):
    """input classes of known findings (none at present: slice n:n and text slices are repaired)"""
    return None


def judge(ctx, prog, imp, res, stream):
    """impl vs model (disagreement) and impl vs spec (violation)."""
    model, spec = res["model"], res["spec"]
    replay = {"stream": stream, "program": prog,
              "text": {"sources": {s["name"]: text_of(s["lines"]) for s in prog["sources"]},
                       "base": None if prog.get("base") is None else text_of(prog["base"]),
                       "main": text_of(prog["main"])}}
    # ---- base / remote unchanged: oracle on the real objects, independent of model and spec
    if "base_before" in imp:
        for part in ("nodes", "data", "types", "units"):
            if imp["base_before"][part] != imp["base_after"][part]:
                ctx.violation("base:%s" % ("units" if part == "units" else "nodes"),
                              "parsing on top of a base environment changed its %s: before %s after %s" %
                              (part, json.dumps(imp["base_before"][part], default=str)[:300],
                               json.dumps(imp["base_after"][part], default=str)[:300]),
                              dict(replay, impl_before=imp["base_before"][part], impl_after=imp["base_after"][part]))
                break
        if not imp.get("second_same", True) or imp.get("base_after2", imp["base_after"]) != imp["base_before"]:
            ctx.violation("base:reuse", "a second parse of the same text on the same base environment does not give what "
                          "the first gave (or changed the base)", dict(replay))
        if imp["base_src_before"] != imp["base_src_after"]:
            ctx.violation("remote:nodes", "parsing on top of a base environment changed the nodes of a remote source",
                          dict(replay, impl_before=imp["base_src_before"], impl_after=imp["base_src_after"]))
    # ---- the specification addresses the target of a property line by path, the code by "last node": when the
    #      generator's idea of that node is not what the line acts on, its statement is not this program's
    trace = model.get("trace") or []
    for i, l in enumerate(prog["main"]):
        if l["k"] == "prop" and i < len(trace) and trace[i] != ".".join(l["path"]):
            ctx.count("generator.prop_target_mismatch")
            spec = "outside"
            break
    # ---- impl vs model (a difference on a program outside the property's domain is only counted)
    def disagree(detail):
        if spec == "outside":
            ctx.count("outside.impl_ne_model")
            if not any(n.startswith("impl != model outside") for n in ctx.notes):
                ctx.notes.append("impl != model outside the property's domain (not judged): %s | %s" %
                                 (detail[:160], replay["text"]["main"][:160].replace("\n", " / ")))
        else:
            ctx.disagreement(stream, replay, detail)
    m_err = "err" in model or "base_err" in model
    i_err = imp["status"] != "ok"
    if m_err != i_err:
        disagree("impl %s (%s), model %s" % (imp["status"], imp.get("error"), model.get("err") or model.get("base_err") or "ok"))
    elif not i_err:
        mn = [lean_rec(x) for x in model["env"]["nodes"]]
        inodes = imp["env"]["nodes"]
        if [n["name"] for n in inodes] != [n["name"] for n in mn]:
            disagree("node lists: impl %s model %s" % ([n["name"] for n in inodes], [n["name"] for n in mn]))
        else:
            for a, b in zip(inodes, mn):
                d = rec_diff(a, b)
                if d:
                    disagree("node %s differs in %s: impl %s model %s" % (a["name"], d, a.get(d.split(".")[0]), b.get(d.split(".")[0])))
                    break
            ud = units_diff(imp["env"]["units"], model["env"]["units"])
            if ud:
                disagree("custom units differ in %s: impl %s model %s" % (ud, imp["env"]["units"], model["env"]["units"]))
        # remote sources as the model parsed them
        for s in model.get("sources", []):
            inn = imp["sources"].get(s["name"])
            ms = [lean_rec(x) for x in s["nodes"]]
            if not isinstance(inn, list) or [n["name"] for n in inn] != [n["name"] for n in ms] or \
                    any(rec_diff(a, b) for a, b in zip(inn, ms)):
                disagree("remote source %s: impl %s model %s" % (s["name"], inn, ms))
    # ---- impl vs spec
    cls = special_class(prog)
    if spec == "outside":
        return "outside"
    if spec == "rejected":
        if not i_err:
            ctx.violation("count:accepted", "a program that must be rejected (an injection selecting no node or several, or a `$unit {src?..}` import of a name that exists already) was accepted: %s" %
                          replay["text"]["main"][:300], replay)
        return "rejected"
    if i_err:
        if spec.get("mayReject"):
            return "ok"
        ctx.violation(cls or "rejected:%s" % failing_kind(prog), "a valid program was refused (%s): %s" %
                      (imp.get("error"), replay["text"]["main"][:300]), dict(replay, impl=imp.get("error")))
        return "ok"
    # readable environment
    if not isinstance(imp["env"]["data"], dict) or not isinstance(imp["env"]["types"], dict):
        ctx.violation("unreadable-entry", "the returned environment cannot be read: %s" % imp["env"]["data"], replay)
        return "ok"
    sn = {x["name"]: lean_rec(x) for x in spec["nodes"]}
    inodes = {n["name"]: n for n in imp["env"]["nodes"]}
    extra = [k for k in inodes if k not in sn]
    missing = [k for k in sn if k not in inodes]
    if extra or missing:
        org = "import" if any(origin_of(k, prog) == "import" for k in extra + missing) else "nodes"
        ctx.violation(cls or "%s:set" % org, "node set differs from the specification: extra %s missing %s" % (extra, missing),
                      dict(replay, impl=sorted(inodes), spec=sorted(sn)))
        return "ok"
    for k, a in inodes.items():
        d = rec_diff(a, sn[k])
        if d:
            org = origin_of(k, prog)
            ctx.violation(cls or "%s:%s" % (org, d.replace("value.unit", "unit")),
                          "node %s (%s) differs from the specification in %s: impl %s %s, spec %s %s" %
                          (k, org, d, a["value"], a["vunit"], sn[k]["value"], sn[k]["unit"]),
                          dict(replay, node=k, impl=a, spec={x: (str(y) if isinstance(y, Fraction) else y) for x, y in sn[k].items()}))
            return "ok"
        if imp["env"]["data"].get(k) is None and a["value"] is not None:
            ctx.violation("unreadable-entry", "node %s missing from data()" % k, replay)
            return "ok"
    # custom units: the unit rule for `$unit name = {ref}` hosts
    ud = units_diff(imp["env"]["units"], spec.get("units", []))
    if ud:
        ctx.violation("unitdef:%s" % ud, "custom units differ from the specification in %s: impl %s, spec %s" %
                      (ud, {k: (v["value"], v["units"]) for k, v in imp["env"]["units"].items()}, spec.get("units")),
                      dict(replay, impl=imp["env"]["units"], spec=spec.get("units")))
        return "ok"
    # base and remote sources against the specification's own run
    if "base_after" in imp and "base" in spec:
        sb = {x["name"]: lean_rec(x) for x in spec["base"]}
        ib = {n["name"]: n for n in imp["base_after"]["nodes"]}
        if sorted(sb) != sorted(ib) or any(rec_diff(ib[k], sb[k]) for k in sb):
            ctx.violation("base:nodes", "the base environment no longer holds what its own text defines", replay)
    for s in spec.get("sources", []):
        ss = {x["name"]: lean_rec(x) for x in s["nodes"]}
        ii = imp["sources"].get(s["name"])
        if not isinstance(ii, list) or sorted(ss) != sorted(n["name"] for n in ii) or \
                any(rec_diff(n, ss[n["name"]]) for n in ii):
            ctx.violation("remote:nodes", "remote source %s no longer holds what its file defines" % s["name"], replay)
    return "ok"


def failing_kind(prog):
    """kind of the first line of the main text at which the real parse starts to fail"""
    main = prog["main"]
    for i in range(1, len(main) + 1):
        if main[i - 1]["k"] in ("prop",) and i < len(main) and main[i]["k"] == "prop":
            continue
        q = dict(prog, main=main[:i])
        try:
            r = run_impl(q)
        except Exception:
            return "harness"
        if r["status"] != "ok":
            l = main[i - 1]
            if l["k"] in ("def", "mod") and "ref" in l["val"]:
                return "inject-" + l["k"]
            return l["k"]
    return "validation"


# ------------------------------------------------------------------ generators
WORDS = ["ab", "cd", "efg", "hi", "jkl", "mno", "pq", "rst", "uvw", "xyz"]
NAMES = ["a", "b", "c", "d", "e", "f", "g2", "k", "m", "n", "p_q", "r", "s", "t", "u-v", "w", "x1", "y", "z"]


def gen_scalar(rng, kw):
    if kw == "bool":
        return rng.random() < 0.5
    if kw == "int":
        return num(rng.randint(-50, 50))
    if kw == "float":
        return num(rng.randint(-9999, 9999), rng.choice([0, 1, 2, 3]))
    return rng.choice(WORDS)


def gen_value(rng, kw, shape):
    if not shape:
        return gen_scalar(rng, kw)
    return [gen_value(rng, kw, shape[1:]) for _ in range(shape[0])]


def exact_dims(shape, rng):
    dims = []
    for s in shape:
        r = rng.random()
        if r < 0.5:
            dims.append([s, s])
        elif r < 0.7:
            dims.append([None, None])
        elif r < 0.85:
            dims.append([rng.randint(0, s), None])
        else:
            dims.append([None, s + rng.randint(0, 2)])
    return dims


class Gen:
    """Builds one program and keeps a catalogue path -> (kw, shape, unit, frozen, where)."""

    def __init__(self, rng):
        self.rng = rng
        self.cat = {}           # local catalogue (main + base): path tuple -> info
        self.rcat = {}          # remote catalogue for source 'src'
        self.n = 0
        self.fam = rng.choice(FAMILIES)   # most units of one program come from one dimension
        self.uncertain = False            # nodes exist that the catalogue does not list (clause bodies)

    def fresh(self, stem="h"):
        self.n += 1
        return "%s%d" % (stem, self.n)

    def unit_for(self, kw):
        if kw != "float" or self.rng.random() < 0.25:
            return None
        return self.rng.choice(self.fam) if self.rng.random() < 0.7 else self.rng.choice(UNITS)

    def tree(self, cat, lines, parents, indent, depth, budget):
        rng = self.rng
        used = set()
        count = rng.randint(2, 4)
        for _ in range(count):
            if budget[0] <= 0:
                return
            nm = rng.choice([x for x in NAMES if x not in used])
            used.add(nm)
            if depth < 3 and rng.random() < 0.35:
                lines.append({"k": "group", "indent": indent, "name": nm})
                self.tree(cat, lines, parents + [nm], indent + 2, depth + 1, budget)
                continue
            if rng.random() < 0.12:
                nm2 = nm + "." + rng.choice(["x", "y"])
            else:
                nm2 = nm
            budget[0] -= 1
            kw = rng.choice(["float", "float", "float", "int", "int", "bool", "str"])
            r = rng.random()
            shape = [] if r < 0.55 else [rng.randint(1, 4) for _ in range(1 if r < 0.8 else (2 if r < 0.93 else 3))]
            unit = self.unit_for(kw)
            path = parents + nm2.split(".")
            val = gen_value(rng, kw, shape)
            lines.append({"k": "def", "indent": indent, "name": nm2, "path": path, "kw": kw,
                          "dims": exact_dims(shape, rng), "val": {"lit": val}, "unit": unit})
            info = {"kw": kw, "shape": shape, "unit": unit, "frozen": False}
            # property lines
            if rng.random() < 0.3:
                for p in rng.sample(["constant", "condition", "format", "tags", "option"], rng.randint(1, 2)):
                    pl = self.prop_line(p, kw, shape, val, unit, indent + 2, path)
                    if pl:
                        lines.append(pl)
                        if p in ("constant", "option"):
                            info["frozen"] = True
                        if p == "option":
                            info["hasopt"] = True
            cat[tuple(path)] = info

    def prop_line(self, p, kw, shape, val, unit, indent, path):
        if p == "constant":
            return {"k": "prop", "indent": indent, "p": "constant", "path": path}
        if p == "condition" and kw in ("int", "float") and not shape:
            return {"k": "prop", "indent": indent, "p": "condition", "v": "{?} > -1000000000000000", "path": path}
        if p == "format" and kw == "str" and not shape:
            return {"k": "prop", "indent": indent, "p": "format", "v": "[a-z]*", "path": path}
        if p == "tags":
            return {"k": "prop", "indent": indent, "p": "tags", "v": self.rng.sample(["t1", "t2", "sel"], 2), "path": path}
        if p == "option" and kw in ("int", "str") and not shape:
            return {"k": "prop", "indent": indent, "p": "option",
                    "v": val["n"] if kw == "int" else val, "quoted": kw == "str", "unit": None, "path": path}
        return None

    def copy_prop(self, p, info, indent, path):
        """a property line for an imported copy (never invalidates the copy's current value)"""
        rng = self.rng
        kw, shape = info["kw"], info["shape"]
        if p == "option":
            if not info.get("hasopt") or shape:
                return None
            v = num(rng.randint(100, 999))["n"] if kw in ("int", "float") else rng.choice(WORDS) + "x"
            return {"k": "prop", "indent": indent, "p": "option", "v": v, "quoted": kw == "str", "unit": None, "path": path}
        if p == "description":
            return {"k": "prop", "indent": indent, "p": "description", "v": rng.choice(WORDS) + " " + rng.choice(WORDS), "path": path}
        return self.prop_line(p, kw, shape, None, None, indent, path)

    # -- later modification with a literal
    def mod_line(self, cat, path, where=None):
        rng = self.rng
        info = cat[path]
        val = gen_value(rng, info["kw"], info["shape"])
        unit = None
        if info["kw"] == "float" and info["unit"] and rng.random() < 0.7:
            fam = [f for f in FAMILIES if info["unit"] in f][0]
            unit = rng.choice(fam) if rng.random() < 0.93 else rng.choice(UNITS)
        return {"k": "mod", "indent": 0, "name": ".".join(path), "path": list(path), "val": {"lit": val}, "unit": unit}

    def pick_slices(self, shape):
        """valid slices (mostly) and the resulting shape"""
        rng = self.rng
        if not shape or rng.random() < 0.3:
            return [], list(shape)
        sl, out = [], []
        k = rng.randint(1, len(shape))
        for d in range(k):
            n = shape[d]
            r = rng.random()
            if r < 0.35 and n > 0:
                sl.append(["idx", rng.randrange(n)])
            elif r < 0.5:
                sl.append(["rng", None, None])
                out.append(n)
            else:
                a = rng.choice([None] + list(range(0, n + 1)))
                b = rng.choice([None] + list(range(0, n + 2)))
                lo = a or 0
                hi = n if b is None else min(b, n)
                sl.append(["rng", a, b])
                out.append(max(0, hi - lo))
        out += shape[k:]
        if 0 in out:
            # an empty array has no regular trailing shape
            out = out[:out.index(0) + 1]
        return sl, out

    def inject_def(self, cat, source, srcpath, parents, indent, malformed=False):
        rng = self.rng
        info = cat[srcpath]
        sl, shape = self.pick_slices(info["shape"])
        if info["kw"] == "str" and not info["shape"] and rng.random() < 0.4:
            # a scalar text is sliced like a Python string (non-empty results for words of >= 2 letters)
            sl = [rng.choice([["idx", 0], ["idx", 1], ["rng", 0, 1], ["rng", None, 2], ["rng", 1, None], ["rng", 0, 2]])]
        if 0 in shape and len(shape) > 1:
            sl, shape = [], list(info["shape"])
        kw = info["kw"]
        if kw == "int" and rng.random() < 0.15:
            kw = "float"
        nm = self.fresh("h")
        if rng.random() < 0.15 and not parents:
            nm = nm + "." + rng.choice(["x", "y"])
        if kw == "float" and rng.random() < 0.4:
            unit = rng.choice(UNITS)
        else:
            unit = None
        eff_unit = unit or (info["unit"] if kw in ("int", "float") else None)
        dims = exact_dims(shape, rng)
        if malformed and shape:
            dims[0] = [shape[0] + 1, None]
        path = parents + nm.split(".")
        line = {"k": "def", "indent": indent, "name": nm, "path": path, "kw": kw, "dims": dims,
                "val": {"ref": {"source": source, "q": ["exact", list(srcpath)], "slices": sl}}, "unit": unit}
        if info["kw"] == "str" and not info["shape"]:
            line["srckind"] = "str-scalar"
        return line, {"kw": kw, "shape": shape, "unit": eff_unit, "frozen": False}


def import_names(cat, q, dest):
    """generator-side mirror of what an import creates (only used to choose later targets)"""
    out = {}
    for p, info in cat.items():
        if q[0] == "all":
            out[tuple(dest) + p] = dict(info)
        elif q[0] == "children" and len(p) > len(q[1]) and list(p[:len(q[1])]) == q[1]:
            out[tuple(dest) + p[len(q[1]):]] = dict(info)
        elif q[0] == "exact" and list(p) == q[1]:
            out[tuple(dest) + p[-1:]] = dict(info)
    return out


def gen_program(rng, malformed=False):
    g = Gen(rng)
    mode = rng.choice(["local", "local", "remote", "remote", "base", "base+remote", "prelude"])
    prog = {"sources": [], "base": None, "main": []}
    tree_lines = []
    tcat = {}
    g.tree(tcat, tree_lines, [], 0, 0, [rng.randint(3, 9)])
    # modifications of the source tree inside the text that defines it
    for p in list(tcat):
        if not tcat[p]["frozen"] and rng.random() < 0.3:
            tree_lines.append(g.mod_line(tcat, p))
    if rng.random() < 0.3:
        tree_lines.append({"k": "unit", "indent": 0, "name": rng.choice(["len", "tick"]),
                           "value": num(rng.randint(1, 50), 1)["n"], "unit": rng.choice(UNITS)})
    source = None
    custom = None
    if mode in ("remote", "base+remote") and rng.random() < 0.35:
        # the remote file defines a custom unit and a node in that unit (first lines of the file)
        cu = rng.choice(["m", "cm", "km", "mm", "s", "ms", "min", "g", "kg"])
        custom = {"unit": cu, "fam": [f for f in FAMILIES if cu in f][0]}
        tree_lines = [{"k": "unit", "indent": 0, "name": "cl", "value": num(rng.randint(1, 90), 1)["n"], "unit": cu},
                      {"k": "def", "indent": 0, "name": "cw", "path": ["cw"], "kw": "float", "dims": [],
                       "val": {"lit": num(rng.randint(1, 999), 1)}, "unit": "[cl]"}] + tree_lines
    if mode in ("remote", "base+remote"):
        prog["sources"].append({"name": "src", "lines": tree_lines})
        source = "src"
        g.rcat = tcat
        if mode == "base+remote":
            bl, bcat = [], {}
            g.tree(bcat, bl, [], 0, 0, [rng.randint(2, 4)])
            # names of the base tree get a prefix group to stay apart from hosts
            prog["base"] = [{"k": "group", "indent": 0, "name": "B"}] + [dict(l, indent=l["indent"] + 2) for l in bl]
            for l in prog["base"][1:]:
                if "path" in l:
                    l["path"] = ["B"] + l["path"]
            g.cat = {("B",) + p: i for p, i in bcat.items()}
    elif mode == "base":
        prog["base"] = tree_lines
        g.cat = tcat
    elif mode == "prelude":
        # a base environment WITHOUT nodes: empty, or a prelude of custom units only
        prog["base"] = [{"k": "unit", "indent": 0, "name": "pl%d" % i, "value": num(rng.randint(1, 50), 1)["n"],
                         "unit": rng.choice(UNITS)} for i in range(rng.randint(0, 2))]
        prog["main"] = tree_lines
        g.cat = tcat
    else:
        prog["main"] = tree_lines
        g.cat = tcat
    main = prog["main"]
    if custom:
        r0 = rng.random()
        if r0 < 0.3:
            # a DIFFERENT unit of the same name exists locally: the unit import must be refused
            main.append({"k": "unit", "indent": 0, "name": "cl", "value": num(rng.randint(1, 90), 1)["n"],
                         "unit": rng.choice(custom["fam"])})
            main.append({"k": "unitimp", "indent": 0, "source": "src", "name": rng.choice([None, "cl"])})
            return prog
        main.append({"k": "unitimp", "indent": 0, "source": "src", "name": None})
        cref = {"ref": {"source": "src", "q": ["exact", ["cw"]], "slices": []}}
        main.append({"k": "def", "indent": 0, "name": "cuw", "path": ["cuw"], "kw": "float", "dims": [], "val": cref, "unit": None})
        main.append({"k": "def", "indent": 0, "name": "cut", "path": ["cut"], "kw": "float", "dims": [],
                     "val": {"lit": num(1)}, "unit": rng.choice(custom["fam"])})
        main.append({"k": "mod", "indent": 0, "name": "cut", "path": ["cut"], "val": cref, "unit": None})
        main.append({"k": "imp", "indent": 0, "prefix": "cui", "dest": ["cui"], "source": "src", "q": ["exact", ["cw"]]})
    nact = rng.randint(2, 7)
    for _ in range(nact):
        # where do we reference: remote catalogue or local one
        use_remote = source is not None and (not g.cat or rng.random() < 0.7)
        cat = g.rcat if use_remote else g.cat
        src = source if use_remote else None
        if not cat:
            continue
        r = rng.random()
        paths = list(cat)
        if malformed and r < 0.35:
            kind = rng.choice(["nopath", "wild", "impnone", "badslice", "nosource", "dims", "badunit", "casemissing",
                               "unitmissing"])
            nm = g.fresh("q")
            if kind == "casemissing":
                # a later clause of a chain whose reference selects no node: rejected whatever came before
                first = rng.random() < 0.5
                main.append({"k": "def", "indent": 0, "name": nm, "path": [nm], "kw": "bool", "dims": [],
                             "val": {"lit": first}, "unit": None})
                main.append({"k": "case", "indent": 0, "kind": "cond",
                             "val": {"ref": {"source": None, "q": ["exact", [nm]], "slices": []}}})
                main.append({"k": "def", "indent": 2, "name": nm + "s", "path": [nm + "s"], "kw": "int", "dims": [],
                             "val": {"lit": num(1)}, "unit": None})
                main.append({"k": "case", "indent": 0, "kind": "cond",
                             "val": {"ref": {"source": None, "q": ["exact", ["zz", "noflag"]], "slices": []}}})
                main.append({"k": "def", "indent": 2, "name": nm + "s", "path": [nm + "s"], "kw": "int", "dims": [],
                             "val": {"lit": num(2)}, "unit": None})
                main.append({"k": "case", "indent": 0, "kind": "end"})
            elif kind == "unitmissing":
                main.append({"k": "unit", "indent": 0, "name": nm, "unit": None,
                             "val": {"ref": {"source": src, "q": rng.choice([["exact", ["zz", "nope"]], ["all"]]), "slices": []}}})
            elif kind == "nopath":
                main.append({"k": "def", "indent": 0, "name": nm, "path": [nm], "kw": "float", "dims": [],
                             "val": {"ref": {"source": src, "q": ["exact", ["zz", "nope"]], "slices": []}}, "unit": None})
            elif kind == "wild":
                q = rng.choice([["all"], ["children", list(rng.choice(paths)[:-1])]])
                if q[0] == "children" and not q[1]:
                    q = ["all"]
                main.append({"k": "def", "indent": 0, "name": nm, "path": [nm], "kw": "float", "dims": [],
                             "val": {"ref": {"source": src, "q": q, "slices": []}}, "unit": None})
            elif kind == "impnone":
                p = rng.choice(paths)
                q = rng.choice([["children", list(p)], ["exact", ["zz"]], ["children", ["zz"]]])
                main.append({"k": "imp", "indent": 0, "prefix": nm, "dest": [nm], "source": src, "q": q})
            elif kind == "badslice":
                p = rng.choice(paths)
                sh = cat[p]["shape"]
                sl = [["idx", (sh[0] if sh else 0) + rng.randint(0, 2)]] + ([["idx", 0]] * len(sh) if rng.random() < 0.5 else [])
                main.append({"k": "def", "indent": 0, "name": nm, "path": [nm], "kw": cat[p]["kw"], "dims": [],
                             "val": {"ref": {"source": src, "q": ["exact", list(p)], "slices": sl}}, "unit": None})
                if cat[p]["kw"] == "str" and not sh:
                    main[-1]["srckind"] = "str-scalar"
            elif kind == "nosource":
                p = rng.choice(paths)
                main.append({"k": "imp", "indent": 0, "prefix": nm, "dest": [nm], "source": "nosrc", "q": ["exact", list(p)]})
            elif kind == "dims":
                p = rng.choice(paths)
                l, info = g.inject_def(cat, src, p, [], 0, malformed=True)
                main.append(l)
            else:
                p = rng.choice(paths)
                l, info = g.inject_def(cat, src, p, [], 0)
                if l["kw"] == "float":
                    l["unit"] = "zzq"
                main.append(l)
            break   # the rest of the text would not be reached
        if rng.random() < 0.06:
            # an INTEGER node (scalar or array) with a unit, re-stated in a larger unit of the same dimension (the
            # converted values are integers again), then injected / sliced / imported into integer hosts
            small, big = rng.choice([("cm", "m"), ("m", "km"), ("mm", "m"), ("ms", "s"), ("s", "min"), ("g", "kg"), ("mm", "cm")])
            ishape = rng.choice([[], [rng.randint(2, 4)], [2, 2]])
            gn = g.fresh("ng")
            g.uncertain = True
            iref = lambda sl: {"ref": {"source": None, "q": ["exact", [gn, "c"]], "slices": sl}}
            main.append({"k": "group", "indent": 0, "name": gn})
            main.append({"k": "def", "indent": 2, "name": "c", "path": [gn, "c"], "kw": "int", "dims": exact_dims(ishape, rng),
                         "val": {"lit": gen_value(rng, "int", ishape)}, "unit": small})
            main.append({"k": "mod", "indent": 0, "name": gn + ".c", "path": [gn, "c"],
                         "val": {"lit": gen_value(rng, "int", ishape)}, "unit": big})
            hn = g.fresh("ni")
            main.append({"k": "def", "indent": 0, "name": hn, "path": [hn], "kw": "int", "dims": exact_dims(ishape, rng),
                         "val": iref([]), "unit": rng.choice([None, None, small, big])})
            if ishape:
                hn2 = g.fresh("ni")
                main.append({"k": "def", "indent": 0, "name": hn2, "path": [hn2], "kw": "int", "dims": exact_dims(ishape[1:], rng),
                             "val": iref([["idx", rng.randrange(ishape[0])]]), "unit": None})
                hn3 = g.fresh("ni")
                main.append({"k": "def", "indent": 0, "name": hn3, "path": [hn3], "kw": "int",
                             "dims": exact_dims([min(2, ishape[0])] + ishape[1:], rng),
                             "val": iref([["rng", None, 2]]), "unit": rng.choice([None, big])})
            bn = g.fresh("nb")
            main.append({"k": "imp", "indent": 0, "prefix": bn, "dest": [bn], "source": None, "q": ["children", [gn]]})
            continue
        if rng.random() < 0.05:
            # a node defined by an EXPRESSION over another node (its value is delivered to model and specification by
            # the harness), the operand modified afterwards, then the node imported onto an existing node and to a
            # fresh place: an imported node carries its value, it is not evaluated again in the importing scope
            u = rng.choice(UNITS[:9])
            fam = [f for f in FAMILIES if u in f][0]
            x, k = rng.randint(1, 999), rng.randint(2, 9)
            en, ew = g.fresh("ea"), g.fresh("ew")
            main.append({"k": "def", "indent": 0, "name": en, "path": [en], "kw": "float", "dims": [],
                         "val": {"lit": num(x, 1)}, "unit": u})
            main.append({"k": "def", "indent": 0, "name": ew, "path": [ew], "kw": "float", "dims": [],
                         "val": {"lit": num(x * k, 1), "expr": "('{?%s} * %d')" % (en, k)}, "unit": u})
            main.append({"k": "mod", "indent": 0, "name": en, "path": [en], "val": {"lit": num(rng.randint(1000, 5000), 1)}, "unit": u})
            ln = g.fresh("L")
            main.append({"k": "group", "indent": 0, "name": ln})
            main.append({"k": "def", "indent": 2, "name": ew, "path": [ln, ew], "kw": "float", "dims": [],
                         "val": {"lit": num(1)}, "unit": rng.choice(fam)})
            main.append({"k": "imp", "indent": 0, "prefix": ln, "dest": [ln], "source": None, "q": ["exact", [ew]]})
            mn = g.fresh("M")
            main.append({"k": "imp", "indent": 0, "prefix": mn, "dest": [mn], "source": None, "q": ["exact", [ew]]})
            g.uncertain = True
            continue
        if r < 0.05:
            # `$unit name = {ref}` with and without a unit of its own: the host of the injection is not a node
            nums = [p for p in paths if cat[p]["kw"] in ("int", "float") and not cat[p]["shape"]]
            if not nums:
                continue
            p = rng.choice(nums)
            own = rng.choice(UNITS) if rng.random() < 0.4 else None
            main.append({"k": "unit", "indent": 0, "name": g.fresh("cu"), "unit": own,
                         "val": {"ref": {"source": src, "q": ["exact", list(p)], "slices": []}}})
        elif r < 0.09:
            # an option line `= {ref}`: the option is the host (own unit or the referenced node's)
            sc = [p for p in paths if cat[p]["kw"] in ("int", "float", "str") and not cat[p]["shape"]]
            if not sc:
                continue
            p = rng.choice(sc)
            info = cat[p]
            kw = info["kw"]
            fam = [f for f in FAMILIES if info["unit"] in f][0] if info["unit"] else None
            nunit = (rng.choice(fam) if fam else (rng.choice(UNITS) if rng.random() < 0.5 else None)) if kw == "float" else None
            nm = g.fresh("o")
            val = gen_scalar(rng, kw)
            main.append({"k": "def", "indent": 0, "name": nm, "path": [nm], "kw": kw, "dims": [], "val": {"lit": val},
                         "unit": nunit})
            main.append({"k": "prop", "indent": 2, "p": "option", "v": val["n"] if kw != "str" else val,
                         "quoted": kw == "str", "unit": nunit, "path": [nm]})
            own = None
            if kw == "float" and rng.random() < 0.4:
                own = rng.choice(fam) if fam else (rng.choice([f for f in FAMILIES if nunit in f][0]) if nunit else None)
            main.append({"k": "prop", "indent": 2, "p": "option", "path": [nm], "unit": own,
                         "val": {"ref": {"source": src, "q": ["exact", list(p)], "slices": []}}})
            g.cat[(nm,)] = {"kw": kw, "shape": [], "unit": nunit, "frozen": True, "hasopt": True}
        elif r < 0.14:
            # an if / else-if chain whose conditions are bare references (or literals): every clause receives
            # the current boolean value of the node it references, whatever the earlier clauses were
            flags = []
            for _ in range(rng.randint(1, 2)):
                fn = g.fresh("f")
                main.append({"k": "def", "indent": 0, "name": fn, "path": [fn], "kw": "bool", "dims": [],
                             "val": {"lit": rng.random() < 0.4}, "unit": None})
                if rng.random() < 0.5:
                    main.append({"k": "mod", "indent": 0, "name": fn, "path": [fn], "val": {"lit": rng.random() < 0.5}, "unit": None})
                g.cat[(fn,)] = {"kw": "bool", "shape": [], "unit": None, "frozen": False}
                flags.append((None, (fn,)))
            flags += [(src, p) for p in paths if cat[p]["kw"] == "bool" and not cat[p]["shape"]][:2]
            body = g.fresh("s")
            g.uncertain = True
            nclauses = rng.randint(2, 3)
            for i in range(nclauses):
                if rng.random() < 0.8:
                    fs, fp = rng.choice(flags)
                    cv = {"ref": {"source": fs, "q": ["exact", list(fp)], "slices": []}}
                else:
                    cv = {"lit": rng.random() < 0.3}
                main.append({"k": "case", "indent": 0, "kind": "cond", "val": cv})
                main.append({"k": "def", "indent": 2, "name": body, "path": [body], "kw": "str", "dims": [],
                             "val": {"lit": rng.choice(WORDS)}, "unit": None})
            if rng.random() < 0.6:
                main.append({"k": "case", "indent": 0, "kind": "else"})
                main.append({"k": "def", "indent": 2, "name": body, "path": [body], "kw": "str", "dims": [],
                             "val": {"lit": rng.choice(WORDS)}, "unit": None})
            main.append({"k": "case", "indent": 0, "kind": "end"})
        elif r < 0.4:
            # injection into a new definition
            p = rng.choice(paths)
            if rng.random() < 0.25:
                grp = g.fresh("G")
                main.append({"k": "group", "indent": 0, "name": grp})
                l, info = g.inject_def(cat, src, p, [grp], 2)
            else:
                l, info = g.inject_def(cat, src, p, [], 0)
            main.append(l)
            g.cat[tuple(l["path"])] = info
        elif r < 0.55:
            # injection as a modification of an existing local scalar/array of the same type
            p = rng.choice(paths)
            info = cat[p]
            cands = [t for t, ti in g.cat.items() if ti["kw"] == info["kw"] and ti["shape"] == info["shape"]
                     and not ti["frozen"] and (t != p or use_remote)]
            if not cands:
                continue
            same = [t for t in cands if g.cat[t]["unit"] and info["unit"] and
                    any(g.cat[t]["unit"] in f and info["unit"] in f for f in FAMILIES)]
            t = rng.choice(same if same and rng.random() < 0.8 else cands)
            ti = g.cat[t]
            unit = None
            if info["kw"] == "float":
                if ti["unit"] and not info["unit"]:
                    unit = rng.choice([f for f in FAMILIES if ti["unit"] in f][0]) if rng.random() < 0.7 else None
                elif ti["unit"] and info["unit"] and rng.random() < 0.3:
                    unit = rng.choice([f for f in FAMILIES if ti["unit"] in f][0])
            main.append({"k": "mod", "indent": 0, "name": ".".join(t), "path": list(t),
                         "val": {"ref": {"source": src, "q": ["exact", list(p)], "slices": []}}, "unit": unit})
        elif r < 0.62:
            # a new host (scalar or array) defined in one unit, then assigned by injection from a node in
            # another unit of the same dimension: the adopted unit is converted element by element
            fl = [p for p in paths if cat[p]["kw"] == "float" and cat[p]["unit"]]
            if not fl:
                continue
            p = rng.choice(fl)
            info = cat[p]
            fam = [f for f in FAMILIES if info["unit"] in f][0]
            hunit = rng.choice(fam)
            nm = g.fresh("c")
            main.append({"k": "def", "indent": 0, "name": nm, "path": [nm], "kw": "float",
                         "dims": exact_dims(info["shape"], rng), "val": {"lit": gen_value(rng, "float", info["shape"])},
                         "unit": hunit})
            own = rng.choice(fam) if rng.random() < 0.3 else None
            main.append({"k": "mod", "indent": 0, "name": nm, "path": [nm],
                         "val": {"ref": {"source": src, "q": ["exact", list(p)], "slices": []}}, "unit": own})
            g.cat[(nm,)] = {"kw": "float", "shape": list(info["shape"]), "unit": hunit, "frozen": False}
        elif r < 0.70:
            # an import that lands on nodes already declared / defined below the destination: the code
            # treats it as a modification (current value converted into the existing node's unit)
            p = rng.choice(paths)
            if len(p) > 1 and rng.random() < 0.75:
                gp = list(p[:rng.randint(1, len(p) - 1)])
                q = ["children", gp]
                kids = [(c, ci) for c, ci in cat.items() if len(c) > len(gp) and list(c[:len(gp)]) == gp]
                rel = lambda c: c[len(gp):]
            else:
                q = ["exact", list(p)]
                kids = [(p, cat[p])]
                rel = lambda c: c[-1:]
            dn = g.fresh("L")
            main.append({"k": "group", "indent": 0, "name": dn})
            created = {}
            for c, ci in kids:
                if rng.random() < 0.7:
                    unit = None
                    if ci["kw"] == "float" and ci["unit"]:
                        unit = rng.choice([f for f in FAMILIES if ci["unit"] in f][0])
                    line = {"indent": 2, "name": ".".join(rel(c)), "path": [dn] + list(rel(c)), "kw": ci["kw"],
                            "dims": exact_dims(ci["shape"], rng), "unit": unit}
                    if rng.random() < 0.5:
                        line["k"] = "decl"
                    else:
                        line["k"] = "def"
                        line["val"] = {"lit": gen_value(rng, ci["kw"], ci["shape"])}
                    main.append(line)
                    created[(dn,) + tuple(rel(c))] = {"kw": ci["kw"], "shape": list(ci["shape"]), "unit": unit, "frozen": False}
            if rng.random() < 0.5:
                main.append({"k": "imp", "indent": 2, "prefix": None, "dest": [dn], "source": src, "q": q})
            else:
                main.append({"k": "imp", "indent": 0, "prefix": dn, "dest": [dn], "source": src, "q": q})
            # catalogue in the order of the environment: nodes that existed first, re-created ones after them
            for key, ci in created.items():
                g.cat[key] = ci
            for c, ci in kids:
                key = (dn,) + tuple(rel(c))
                if key not in created:
                    g.cat[key] = dict(ci)
        elif r < 0.8:
            # import
            kind = rng.random()
            p = rng.choice(paths)
            if kind < 0.45 and len(p) > 1:
                q = ["children", list(p[:rng.randint(1, len(p) - 1)])]
            elif kind < 0.8:
                q = ["exact", list(p)]
            else:
                q = ["all"]
            if not use_remote and q[0] == "all" and rng.random() < 0.5:
                continue
            dest_name = g.fresh("I")
            form = rng.random()
            if form < 0.4:
                main.append({"k": "group", "indent": 0, "name": dest_name})
                main.append({"k": "imp", "indent": 2, "prefix": None, "dest": [dest_name], "source": src, "q": q})
                dest = [dest_name]
            elif form < 0.8:
                main.append({"k": "imp", "indent": 0, "prefix": dest_name, "dest": [dest_name], "source": src, "q": q})
                dest = [dest_name]
            else:
                sub = rng.choice(["bag", "box"])
                main.append({"k": "imp", "indent": 0, "prefix": dest_name + "." + sub, "dest": [dest_name, sub],
                             "source": src, "q": q})
                dest = [dest_name, sub]
            created = import_names(cat, q, dest)
            g.cat.update(created)
            imp_indent = main[-1]["indent"]
            # (after a @case chain the catalogue no longer knows every root node: `{?*}` may select more)
            certain = not (g.uncertain and q[0] == "all" and not use_remote)
            if created and certain and rng.random() < 0.5:
                # property lines attached to the imported copy (they act on the last imported node) ...
                last = list(created)[-1]
                info = g.cat[last]
                for pk in rng.sample(["tags", "constant", "condition", "format", "description", "option", "option"],
                                     rng.randint(1, 3)):
                    pl = g.copy_prop(pk, info, imp_indent + 2, list(last))
                    if pl:
                        main.append(pl)
                        if pk == "constant":
                            info["frozen"] = True
                # ... and a second import of the same request: the original must be as its text defines it
                if rng.random() < 0.6:
                    d2 = g.fresh("J")
                    main.append({"k": "imp", "indent": 0, "prefix": d2, "dest": [d2], "source": src, "q": q})
                    g.cat.update(import_names(cat, q, [d2]))
        else:
            # later literal modification of a local node (source, host or imported)
            cands = [t for t, ti in g.cat.items() if not ti["frozen"]]
            if not cands:
                continue
            main.append(g.mod_line(g.cat, rng.choice(cands)))
    if not main:
        main.append({"k": "def", "indent": 0, "name": "only", "path": ["only"], "kw": "int", "dims": [],
                     "val": {"lit": num(1)}, "unit": None})
    return prog


# ------------------------------------------------------------------ corpus
def L(text_kind, **kw):
    return dict(k=text_kind, **kw)


def corpus():
    F = lambda *a: {"n": num_text(Fraction(*a))}
    ref = lambda q, sl=None, source=None: {"ref": {"source": source, "q": q, "slices": sl or []}}
    a3 = L("def", indent=0, name="a", path=["a"], kw="float", dims=[], val={"lit": F(3)}, unit="m")
    progs = []
    # recon: current value, not first raw value
    progs.append(("current-value", {"sources": [], "base": None, "main": [
        a3, L("mod", indent=0, name="a", path=["a"], val={"lit": F(4)}, unit="m"),
        L("def", indent=0, name="b", path=["b"], kw="float", dims=[], val=ref(["exact", ["a"]]), unit=None)]}))
    progs.append(("current-value-units", {"sources": [], "base": None, "main": [
        a3, L("mod", indent=0, name="a", path=["a"], val={"lit": F(400)}, unit="cm"),
        L("def", indent=0, name="b", path=["b"], kw="float", dims=[], val=ref(["exact", ["a"]]), unit="cm"),
        L("def", indent=0, name="c", path=["c"], kw="float", dims=[], val={"lit": F(1)}, unit="km"),
        L("mod", indent=0, name="c", path=["c"], val=ref(["exact", ["a"]]), unit=None)]}))
    # recon: import that selects nothing
    x1 = L("def", indent=0, name="x", path=["x"], kw="int", dims=[], val={"lit": F(1)}, unit=None)
    progs.append(("import-none-children", {"sources": [], "base": None, "main": [
        x1, L("group", indent=0, name="h"), L("imp", indent=2, prefix=None, dest=["h"], source=None, q=["children", ["x"]])]}))
    progs.append(("import-none-exact", {"sources": [], "base": None, "main": [
        x1, L("imp", indent=0, prefix="h", dest=["h"], source=None, q=["exact", ["y"]])]}))
    # imported node defined by injection in a remote file; local namesake with a unit
    progs.append(("remote-injected-import", {"sources": [{"name": "src", "lines": [
        L("def", indent=0, name="a", path=["a"], kw="float", dims=[], val={"lit": F(1)}, unit=None),
        L("def", indent=0, name="b", path=["b"], kw="float", dims=[], val=ref(["exact", ["a"]]), unit=None)]}],
        "base": None, "main": [
        L("def", indent=0, name="a", path=["a"], kw="float", dims=[], val={"lit": F(2)}, unit="m"),
        L("imp", indent=0, prefix="h", dest=["h"], source="src", q=["exact", ["b"]])]}))
    # multi-dimensional slice host imported and modified
    m = L("def", indent=0, name="m", path=["m"], kw="float", dims=[[2, 2], [2, 2]],
          val={"lit": [[F(34), F(2334, 100)], [F(1), F(7)]]}, unit="cm")
    my = L("def", indent=0, name="my", path=["my"], kw="float", dims=[[2, 2]],
           val=ref(["exact", ["m"]], [["rng", None, None], ["idx", 1]]), unit=None)
    progs.append(("slice-leftover", {"sources": [], "base": None, "main": [
        m, my, L("imp", indent=0, prefix="h", dest=["h"], source=None, q=["exact", ["my"]]),
        L("mod", indent=0, name="my", path=["my"], val={"lit": [F(5), F(6)]}, unit=None)]}))
    # declared, assigned, imported
    progs.append(("import-twice-current", {"sources": [], "base": None, "main": [
        a3, L("mod", indent=0, name="a", path=["a"], val={"lit": F(4)}, unit="m"),
        L("imp", indent=0, prefix="h", dest=["h"], source=None, q=["exact", ["a"]]),
        L("mod", indent=0, name="h.a", path=["h", "a"], val={"lit": F(9)}, unit="m"),
        L("def", indent=0, name="z", path=["z"], kw="float", dims=[], val=ref(["exact", ["h", "a"]]), unit=None)]}))
    # flat declare-then-assign programs (C17_refinement_declared_partial); the last one leaves a node without value
    dl = [L("decl", indent=0, name="a", path=["a"], kw="float", dims=[], unit="m"),
          L("def", indent=0, name="b", path=["b"], kw="int", dims=[], val={"lit": F(2)}, unit=None),
          L("decl", indent=0, name="v", path=["v"], kw="int", dims=[[2, 2]], unit=None),
          L("mod", indent=0, name="a", path=["a"], val={"lit": F(300)}, unit="cm"),
          L("mod", indent=0, name="v", path=["v"], val={"lit": [F(5), F(6)]}, unit=None)]
    progs.append(("declared-flat", {"sources": [], "base": None, "main": dl}))
    progs.append(("declared-flat-on-base", {"sources": [], "base": [a3], "main": [dict(l, name="q" + l["name"], path=["q" + l["name"]]) for l in dl]}))
    progs.append(("declared-flat-unassigned", {"sources": [], "base": None, "main": dl[:4]}))
    # known findings: n:n and text slices
    s3 = L("def", indent=0, name="s", path=["s"], kw="float", dims=[[3, 3]], val={"lit": [F(1), F(2), F(3)]}, unit=None)
    progs.append(("slice-n-n", {"sources": [], "base": None, "main": [
        s3, L("def", indent=0, name="e", path=["e"], kw="float", dims=[[None, None]],
              val=ref(["exact", ["s"]], [["rng", 1, 1]]), unit=None)]}))
    progs.append(("slice-text", {"sources": [], "base": None, "main": [
        L("def", indent=0, name="person", path=["person"], kw="str", dims=[], val={"lit": "willsmith"}, unit=None),
        dict(L("def", indent=0, name="surname", path=["surname"], kw="str", dims=[],
               val=ref(["exact", ["person"]], [["rng", 4, None]]), unit=None), srckind="str-scalar")]}))
    # property lines on an imported copy; the original and a second import must stay as defined
    o1 = L("def", indent=2, name="o", path=["g", "o"], kw="int", dims=[], val={"lit": F(1)}, unit=None)
    progs.append(("copy-options-local", {"sources": [], "base": None, "main": [
        L("group", indent=0, name="g"), o1,
        L("prop", indent=4, p="option", v="1", unit=None, path=["g", "o"]),
        L("prop", indent=4, p="option", v="2", unit=None, path=["g", "o"]),
        L("prop", indent=4, p="tags", v=["t1"], path=["g", "o"]),
        L("group", indent=0, name="fine"),
        L("imp", indent=2, prefix=None, dest=["fine"], source=None, q=["exact", ["g", "o"]]),
        L("prop", indent=4, p="option", v="7", unit=None, path=["fine", "o"]),
        L("prop", indent=4, p="tags", v=["sel"], path=["fine", "o"]),
        L("imp", indent=0, prefix="J", dest=["J"], source=None, q=["children", ["g"]]),
        L("mod", indent=0, name="fine.o", path=["fine", "o"], val={"lit": F(7)}, unit=None),
        L("mod", indent=0, name="g.o", path=["g", "o"], val={"lit": F(2)}, unit=None)]}))
    progs.append(("copy-options-remote", {"sources": [{"name": "src", "lines": [
        L("def", indent=0, name="s", path=["s"], kw="str", dims=[], val={"lit": "ab"}, unit=None),
        L("prop", indent=2, p="option", v="ab", quoted=True, unit=None, path=["s"]),
        L("prop", indent=2, p="option", v="cd", quoted=True, unit=None, path=["s"]),
        L("prop", indent=2, p="tags", v=["t2"], path=["s"]),
        L("group", indent=0, name="k"),
        L("def", indent=2, name="x", path=["k", "x"], kw="float", dims=[[2, 2]], val={"lit": [F(1), F(2)]}, unit="m"),
        L("def", indent=2, name="y", path=["k", "y"], kw="float", dims=[], val={"lit": F(5)}, unit="s"),
        L("prop", indent=4, p="tags", v=["t1"], path=["k", "y"])]}],
        "base": None, "main": [
        L("group", indent=0, name="first"),
        L("imp", indent=2, prefix=None, dest=["first"], source="src", q=["exact", ["s"]]),
        L("prop", indent=4, p="option", v="ef", quoted=True, unit=None, path=["first", "s"]),
        L("prop", indent=4, p="tags", v=["sel", "t1"], path=["first", "s"]),
        L("prop", indent=4, p="description", v="copy only", path=["first", "s"]),
        L("imp", indent=0, prefix="second", dest=["second"], source="src", q=["exact", ["s"]]),
        L("imp", indent=0, prefix="c1", dest=["c1"], source="src", q=["children", ["k"]]),
        L("prop", indent=2, p="tags", v=["sel"], path=["c1", "y"]),
        L("prop", indent=2, p="condition", v="{?} > -1000000000000000", path=["c1", "y"]),
        L("prop", indent=2, p="constant", path=["c1", "y"]),
        L("imp", indent=0, prefix="c2", dest=["c2"], source="src", q=["children", ["k"]]),
        L("def", indent=0, name="z", path=["z"], kw="str", dims=[], val=ref(["exact", ["s"]], source="src"), unit=None)]}))
    # array host converted element by element from a unit with an offset (adopted by injection)
    progs.append(("array-offset-units", {"sources": [], "base": None, "main": [
        L("def", indent=0, name="p", path=["p"], kw="float", dims=[[3, 3]], val={"lit": [F(0), F(10), F(366, 10)]}, unit="Cel"),
        L("mod", indent=0, name="p", path=["p"], val={"lit": [F(-10), F(25), F(100)]}, unit=None),
        L("def", indent=0, name="s", path=["s"], kw="float", dims=[[3, 3]], val={"lit": [F(1), F(1), F(1)]}, unit="K"),
        L("mod", indent=0, name="s", path=["s"], val=ref(["exact", ["p"]]), unit=None),
        L("def", indent=0, name="u", path=["u"], kw="float", dims=[], val=ref(["exact", ["p"]], [["idx", 1]]), unit=None),
        L("def", indent=0, name="t", path=["t"], kw="float", dims=[], val={"lit": F(5)}, unit="degF"),
        L("mod", indent=0, name="t", path=["t"], val=ref(["exact", ["u"]]), unit=None),
        L("def", indent=0, name="w", path=["w"], kw="float", dims=[[2, None]], val={"lit": [F(1), F(2), F(3)]}, unit="degF"),
        L("mod", indent=0, name="w", path=["w"], val=ref(["exact", ["s"]]), unit="Cel")]}))
    # import onto nodes that are already declared / defined: acts as a modification with the current value
    progs.append(("import-onto-existing", {"sources": [], "base": None, "main": [
        L("group", indent=0, name="setup"),
        L("def", indent=2, name="length", path=["setup", "length"], kw="float", dims=[], val={"lit": F(1)}, unit="m"),
        L("def", indent=2, name="mode", path=["setup", "mode"], kw="str", dims=[], val={"lit": "slow"}, unit=None),
        L("def", indent=2, name="cells", path=["setup", "cells"], kw="int", dims=[[2, 2]], val={"lit": [F(1), F(2)]}, unit=None),
        L("def", indent=2, name="on", path=["setup", "on"], kw="bool", dims=[], val={"lit": False}, unit=None),
        L("def", indent=2, name="extra", path=["setup", "extra"], kw="float", dims=[], val={"lit": F(4)}, unit="s"),
        L("mod", indent=0, name="setup.length", path=["setup", "length"], val={"lit": F(2)}, unit="km"),
        L("mod", indent=0, name="setup.mode", path=["setup", "mode"], val={"lit": "fast"}, unit=None),
        L("mod", indent=0, name="setup.cells", path=["setup", "cells"], val={"lit": [F(5), F(6)]}, unit=None),
        L("mod", indent=0, name="setup.on", path=["setup", "on"], val={"lit": True}, unit=None),
        L("group", indent=0, name="box"),
        L("decl", indent=2, name="length", path=["box", "length"], kw="float", dims=[], unit="cm"),
        L("def", indent=2, name="mode", path=["box", "mode"], kw="str", dims=[], val={"lit": "none"}, unit=None),
        L("def", indent=2, name="cells", path=["box", "cells"], kw="int", dims=[[2, 2]], val={"lit": [F(0), F(0)]}, unit=None),
        L("decl", indent=2, name="on", path=["box", "on"], kw="bool", dims=[], unit=None),
        L("imp", indent=0, prefix="box", dest=["box"], source=None, q=["children", ["setup"]]),
        L("group", indent=0, name="one"),
        L("def", indent=2, name="length", path=["one", "length"], kw="float", dims=[], val={"lit": F(1)}, unit="mm"),
        L("imp", indent=2, prefix=None, dest=["one"], source=None, q=["exact", ["setup", "length"]])]}))
    # hosts that are not typed nodes: `$unit name = {ref}` (with / without own unit), option lines `= {ref}`
    progs.append(("unit-and-option-hosts", {"sources": [], "base": None, "main": [
        L("def", indent=0, name="w", path=["w"], kw="float", dims=[], val={"lit": F(1)}, unit="kg"),
        L("mod", indent=0, name="w", path=["w"], val={"lit": F(2500)}, unit="g"),
        L("def", indent=0, name="n", path=["n"], kw="int", dims=[], val={"lit": F(3)}, unit=None),
        L("unit", indent=0, name="wu", unit=None, val=ref(["exact", ["w"]])),
        L("unit", indent=0, name="wh", unit="cm", val=ref(["exact", ["w"]])),
        L("unit", indent=0, name="nu", unit=None, val=ref(["exact", ["n"]])),
        L("def", indent=0, name="x", path=["x"], kw="float", dims=[], val={"lit": F(2)}, unit="g"),
        L("prop", indent=2, p="option", v="2", unit="g", path=["x"]),
        L("prop", indent=2, p="option", path=["x"], unit=None, val=ref(["exact", ["w"]])),
        L("prop", indent=2, p="option", path=["x"], unit="g", val=ref(["exact", ["w"]])),
        L("def", indent=0, name="y", path=["y"], kw="int", dims=[], val={"lit": F(3)}, unit=None),
        L("prop", indent=2, p="option", v="3", unit=None, path=["y"]),
        L("prop", indent=2, p="option", path=["y"], unit=None, val=ref(["exact", ["n"]]))]}))
    # if / else-if chains with bare-reference conditions: a later clause receives the current value
    flag = lambda nm, v: L("def", indent=0, name=nm, path=[nm], kw="bool", dims=[], val={"lit": v}, unit=None)
    body = lambda v: L("def", indent=2, name="solver", path=["solver"], kw="str", dims=[], val={"lit": v}, unit=None)
    cond = lambda nm: L("case", indent=0, kind="cond", val=ref(["exact", [nm]]))
    progs.append(("case-chain-later-true", {"sources": [], "base": None, "main": [
        flag("hy", False), flag("mh", False),
        L("mod", indent=0, name="mh", path=["mh"], val={"lit": True}, unit=None),
        cond("hy"), body("ab"), cond("mh"), body("cd"), L("case", indent=0, kind="else"), body("ef"),
        L("case", indent=0, kind="end"),
        L("def", indent=0, name="after", path=["after"], kw="str", dims=[], val=ref(["exact", ["solver"]]), unit=None)]}))
    progs.append(("case-chain-first-true", {"sources": [], "base": None, "main": [
        flag("hy", True), flag("mh", True), cond("hy"), body("ab"), cond("mh"), body("cd"),
        L("case", indent=0, kind="else"), body("ef"), L("case", indent=0, kind="end")]}))
    progs.append(("case-chain-missing-reference", {"sources": [], "base": None, "main": [
        flag("hy", False), cond("hy"), body("ab"), cond("nosuchflag"), body("cd"), L("case", indent=0, kind="end")]}))
    # base environments WITHOUT nodes (units prelude / empty): parsed on twice, must stay as they were
    pre_main = [L("unit", indent=0, name="wid", value="3", unit="cm"),
                L("group", indent=0, name="box"),
                L("def", indent=2, name="a", path=["box", "a"], kw="float", dims=[], val={"lit": F(2)}, unit="cm"),
                L("def", indent=2, name="b", path=["box", "b"], kw="float", dims=[], val=ref(["exact", ["box", "a"]]), unit="mm"),
                L("imp", indent=0, prefix="copy", dest=["copy"], source=None, q=["children", ["box"]])]
    progs.append(("base-units-prelude", {"sources": [], "main": pre_main,
                                         "base": [L("unit", indent=0, name="len", value="2", unit="cm")]}))
    progs.append(("base-empty", {"sources": [], "main": pre_main, "base": []}))
    # import of the custom units of a remote file; a clashing local unit of the same name is refused
    rem = [L("unit", indent=0, name="cl", value="2", unit="cm"),
           L("def", indent=0, name="width", path=["width"], kw="float", dims=[], val={"lit": F(3)}, unit="[cl]")]
    wref = ref(["exact", ["width"]], source="src")
    progs.append(("unit-import", {"sources": [{"name": "src", "lines": rem}], "base": None, "main": [
        L("unitimp", indent=0, source="src", name=None),
        L("def", indent=0, name="w", path=["w"], kw="float", dims=[], val=wref, unit=None),
        L("def", indent=0, name="total", path=["total"], kw="float", dims=[], val={"lit": F(1)}, unit="mm"),
        L("mod", indent=0, name="total", path=["total"], val=wref, unit=None)]}))
    progs.append(("unit-import-clash", {"sources": [{"name": "src", "lines": rem}], "base": None, "main": [
        L("unit", indent=0, name="cl", value="1", unit="m"),
        L("unitimp", indent=0, source="src", name=None)]}))
    # base environment
    progs.append(("base", {"sources": [], "main": [
        L("mod", indent=0, name="a", path=["a"], val={"lit": F(5)}, unit="m"),
        L("def", indent=0, name="b", path=["b"], kw="float", dims=[], val=ref(["exact", ["a"]]), unit=None),
        L("imp", indent=0, prefix="h", dest=["h"], source=None, q=["children", ["g"]]),
        L("mod", indent=0, name="h.c", path=["h", "c"], val={"lit": F(7)}, unit=None),
        L("unit", indent=0, name="q", value="3", unit="s")],
        "base": [a3, L("group", indent=0, name="g"),
                 L("def", indent=2, name="c", path=["g", "c"], kw="int", dims=[], val={"lit": F(2)}, unit=None),
                 L("unit", indent=0, name="len", value="2", unit="m")]}))
    # count
    progs.append(("count-two", {"sources": [], "base": None, "main": [
        L("group", indent=0, name="g"),
        L("def", indent=2, name="a", path=["g", "a"], kw="float", dims=[], val={"lit": F(3)}, unit="m"),
        L("def", indent=2, name="c", path=["g", "c"], kw="float", dims=[], val={"lit": F(2)}, unit=None),
        L("def", indent=0, name="b", path=["b"], kw="float", dims=[], val=ref(["children", ["g"]]), unit=None)]}))
    # prefix that is not a path prefix
    progs.append(("prefix", {"sources": [], "base": None, "main": [
        L("def", indent=0, name="ab", path=["ab"], kw="int", dims=[], val={"lit": F(1)}, unit=None),
        L("def", indent=0, name="ab.c", path=["ab", "c"], kw="int", dims=[], val={"lit": F(2)}, unit=None),
        L("def", indent=0, name="abc.d", path=["abc", "d"], kw="int", dims=[], val={"lit": F(3)}, unit=None),
        L("imp", indent=0, prefix="h", dest=["h"], source=None, q=["children", ["ab"]])]}))
    return progs


# ------------------------------------------------------------------ streams
def tie_check(ctx, prog, tie, verdict, stream, imp=None):
    """The refinement theorems' own definitions, evaluated by the driver on this program: for every import line
    the line record `impAt i pre source q` against the record built from the text, and the destination
    `impDest parents i pre` (computed from the model's hierarchy stack) against the destination of the
    specification statement; `fragRunB` (the executable side condition of C17_refinement_checked_partial) for the
    main program.  A destination / record that differs on a program the specification judges means the theorem
    speaks about another line than the one that is run: reported as a broken tie."""
    if not tie:
        return
    for t in tie.get("imports", []):
        where = "indented" if t["indent"] > 0 else "root"
        ctx.count("tie.import_line_%s.%s" % (where, "same" if t["line"] else "differs"))
        ctx.count("tie.import_dest_%s.%s" % (where, "same" if t["dest"] else "differs"))
        if verdict == "ok" and not (t["line"] and t["dest"]):
            ctx.disagreement(stream + ":theorem-tie", {"program": prog},
                             "import line: impAt/impDest of the refinement theorem differ from the line that is run: %s" % (t,))
    if "frag" in tie:
        ctx.count("tie.fragRunB.%s" % ("accepts" if tie["frag"] else "refuses"))
    if "nested" in tie:
        # runNB (C17_refinement_nested_checked_partial) on the main program read as NLines; "accepts" also means that
        # the line records the theorem speaks about are, field by field, the records the model was run on
        # (a count only: the theorem is conditional on the specification accepting the program, so an accepted
        # program with verdict "rejected" is no contradiction)
        ctx.count("tie.runNB.%s" % tie["nested"])
        ctx.count("tie.runNB.%s.spec_%s" % (tie["nested"], verdict))
    if "inv" in tie:
        # invB (C17_inv_decidable / C17_refinement_env_checked_partial): the invariant the refinement theorems assume
        # of the environment the main program starts from (parsed base, parsed remote files), as computed by the
        # driver on the model's environment.  Tied to the real objects: the real base / remote nodes (already
        # compared field by field with the model's by judge) must all hold a value when invB accepts, and when invB
        # refuses because of a declared node the real environment must hold a node without value too.
        mode = ("base" if prog.get("base") is not None else "") + ("remote" if prog["sources"] else "") or "local"
        ctx.count("tie.invB.%s.%s" % ("accepts" if tie["inv"] else "refuses", mode))
        if not tie["inv"]:
            ctx.count("tie.invB.refuses.%s" % ("declared" if tie.get("inv_declared") else "other"))
        real = None
        if imp is not None:
            if "base_before" in imp:
                srcs = imp.get("base_src_before") or {}
                if all(isinstance(v, list) for v in srcs.values()):
                    real = list(imp["base_before"]["nodes"]) + [n for v in srcs.values() for n in v]
            elif imp.get("status") == "ok" and isinstance(imp.get("sources"), dict) and \
                    all(isinstance(v, list) for v in imp["sources"].values()):
                real = [n for v in imp["sources"].values() for n in v]
        if real is not None:
            real_declared = [n["name"] for n in real if n["value"] is None]
            ctx.count("tie.invB.real_%s" % ("declared" if real_declared else "all_valued"))
            if tie["inv"] and real_declared:
                ctx.disagreement(stream + ":theorem-tie", {"program": prog},
                                 "invB accepts the initial environment but the real one holds nodes without value: %s" % real_declared)
            if tie.get("inv_declared") and not real_declared:
                ctx.disagreement(stream + ":theorem-tie", {"program": prog},
                                 "invB refuses the initial environment for a declared node (%s) but every real node holds a value" % tie.get("inv_bad"))
        if tie.get("base_nested") is not None:
            # both stages of C17_refinement_on_base_partial: invB on the environment the base text starts from, runNB
            # on the base text, runNB on the main text in the environment the base parse returned
            both = tie.get("inv0") and tie["base_nested"] == "accepts" and tie.get("nested") == "accepts"
            ctx.count("tie.on_base.base_%s" % tie["base_nested"])
            ctx.count("tie.on_base.covered_%s" % ("yes" if both else "no"))
            if both and not tie["inv"]:
                ctx.disagreement(stream + ":theorem-tie", {"program": prog},
                                 "invB and runNB accept the base stage but invB refuses the environment the base parse returns")
        if "declared" in tie:
            # C17_refinement_declared_partial: flat programs of declarations / literal definitions / literal
            # modifications from an environment accepted by invDB (declared nodes allowed).  verdict "ok" means the
            # specification accepted and left no node without value: the theorem then demands that the model's parse
            # (main loop + final validation) succeeds and that the strong invariant holds for the result.
            tag = tie["declared"] + (".with_decl" if tie.get("declared_has_decl") else "")
            ctx.count("tie.declared.%s" % tag)
            if tie["declared"] == "accepts" and verdict == "ok":
                ctx.count("tie.declared.accepts.spec_ok.final_inv_%s" % tie.get("inv_final"))
                if tie.get("inv_final") is not True:
                    ctx.disagreement(stream + ":theorem-tie", {"program": prog},
                                     "invDB and litFragB accept, the specification accepts and leaves no node without value, "
                                     "but the model's parse / final invB gives %s" % tie.get("inv_final"))
            if tie["declared"] == "records-differ" and verdict == "ok" and all(l["indent"] == 0 for l in prog["main"]):
                ctx.disagreement(stream + ":theorem-tie", {"program": prog},
                                 "concD of the declared-node theorem builds other line records than the ones that are run")
        covered = tie["inv"] and tie.get("nested") == "accepts"
        ctx.count("tie.covered.%s" % ("yes" if covered else "no"))
        if covered and verdict == "ok":
            # the conclusion of C17_refinement_env_checked_partial, observed: the model accepts and invB accepts its result
            ctx.count("tie.covered.spec_ok.final_inv_%s" % tie.get("inv_final"))
            if tie.get("inv_final") is not True:
                ctx.disagreement(stream + ":theorem-tie", {"program": prog},
                                 "invB and runNB accept, the specification accepts, but the model's run / final invB gives %s" % tie.get("inv_final"))


def prog_stream(ctx, progs, stream):
    """progs: list of (label, program)."""
    impls = []
    for label, prog in progs:
        try:
            impls.append(run_impl(prog))
        except Exception as e:
            impls.append({"status": "harness-error", "error": repr(e)})
    res = ctx.driver.ask_many([request_of(p) for _, p in progs])
    for (label, prog), imp, r in zip(progs, impls, res):
        if "ok" not in r:
            ctx.disagreement(stream, {"program": prog}, "driver error %s" % (r,))
            continue
        if imp["status"] == "harness-error":
            raise RuntimeError("harness: %s" % imp["error"])
        if imp["status"] == "base_err":
            # the base text itself is refused: not a program of the property's domain
            if "base_err" not in r["ok"]["model"] and "err" not in r["ok"]["model"]:
                ctx.count("outside.base_refused_impl_only")
            ctx.count("%s.base_refused" % stream)
            continue
        verdict = judge(ctx, prog, imp, r["ok"], stream)
        nrefs = sum(1 for l in prog["main"] if (l["k"] in ("def", "mod", "unit", "case", "prop") and "ref" in l.get("val", {}))
                    or l["k"] == "imp")
        ctx.case([stream, prog], verdict != "outside" and nrefs > 0,
                 {"main": text_of(prog["main"])[:400], "spec": verdict, "impl": imp["status"]})
        ctx.count("%s.spec_%s" % (stream, verdict))
        ctx.count("%s.impl_%s" % (stream, imp["status"]))
        tie_check(ctx, prog, r["ok"].get("tie"), verdict, stream, imp)
        ctx.count("%s.mode_%s" % (stream, ("base" if prog.get("base") is not None else "") + ("remote" if prog["sources"] else "") or "local"))
        for l in prog["main"]:
            if l["k"] in ("def", "mod") and "ref" in l["val"]:
                ctx.count("inject.%s" % l["k"])
                for s in l["val"]["ref"].get("slices") or []:
                    ctx.count("slice.%s" % s[0])
            elif l["k"] == "imp":
                ctx.count("import.%s" % l["q"][0])
            elif l["k"] in ("unit", "case", "prop") and "ref" in l.get("val", {}):
                ctx.count("inject.%s" % ("option" if l["k"] == "prop" else l["k"]))
        dests = [tuple(l["dest"]) for l in prog["main"] if l["k"] == "imp"]
        for l in prog["main"]:
            if l["k"] == "prop" and any(tuple(l["path"][:len(d)]) == d for d in dests):
                ctx.count("copy_prop.%s" % l["p"])


def _plain(v):
    if isinstance(v, list):
        return [_plain(x) for x in v]
    return int(v["n"]) if is_num(v) else v


def revalue_sources(rng, prog):
    """the same program with other literal values in its remote files (same names, types, shapes, units)"""
    q = copy.deepcopy(prog)
    for src in q["sources"]:
        kws, fixed = {}, set()
        for l in src["lines"]:
            if l["k"] == "def":
                kws[tuple(l["path"])] = l["kw"]
            if l["k"] == "prop" and l["p"] in ("option", "format"):
                fixed.add(tuple(l["path"]))
        for l in src["lines"]:
            if l["k"] in ("def", "mod") and "lit" in l["val"] and tuple(l["path"]) in kws and tuple(l["path"]) not in fixed:
                l["val"] = {"lit": gen_value(rng, kws[tuple(l["path"])], py_shape(l["val"]["lit"]))}
    return q


def history_stream(ctx, count):
    """histories of parses in one interpreter over files that are rewritten between the parses (same source
    name, same path): every parse must see the current content of the file"""
    rng = ctx.rng
    done = 0
    attempts = 0
    while done < count and attempts < count * 6:
        attempts += 1
        a = gen_program(rng)
        if not a["sources"]:
            continue
        done += 1
        b = revalue_sources(rng, a)
        hist = [a, b, a] if rng.random() < 0.5 else [a, b]
        tag = "hist%d" % done
        impls = []
        for i, pr in enumerate(hist):
            try:
                impls.append(run_impl(pr, file_tag=tag, keep_files=(i + 1 < len(hist))))
            except Exception as e:
                impls.append({"status": "harness-error", "error": repr(e)})
        res = ctx.driver.ask_many([request_of(pr) for pr in hist])
        for i, (pr, imp, r) in enumerate(zip(hist, impls, res)):
            if imp["status"] == "harness-error":
                raise RuntimeError("harness: %s" % imp["error"])
            if "ok" not in r:
                ctx.disagreement("history", {"program": pr}, "driver error %s" % (r,))
                continue
            if imp["status"] == "base_err":
                ctx.count("history.base_refused")
                continue
            verdict = judge(ctx, pr, imp, r["ok"], "history[parse %d of %d over the same files]" % (i + 1, len(hist)))
            ctx.case(["history", done, i, pr], verdict != "outside" and i > 0, None)
            ctx.count("history.parse%d.spec_%s" % (i + 1, verdict))


def slice_stream(ctx, count):
    """slice_value on the real class against the model and the Python-slice specification"""
    import numpy as np
    from scinumtools.dip.nodes.node_base import BaseNode
    rng = ctx.rng
    cases = []
    for _ in range(count):
        shape = [rng.randint(0, 4) for _ in range(rng.randint(1, 3))]
        if 0 in shape:
            shape = shape[:shape.index(0) + 1]
        v = gen_value(rng, "int", shape)
        sl = []
        for d in range(rng.randint(1, len(shape) + (1 if rng.random() < 0.1 else 0))):
            if rng.random() < 0.35:
                sl.append(["idx", rng.randint(0, 4)])
            else:
                a = rng.choice([None, 0, 1, 2, 3, 5])
                b = rng.choice([None, 0, 1, 2, 3, 5])
                sl.append(["rng", a, b])
        cases.append((v, sl))
    res = ctx.driver.ask_many([{"p": "C17", "k": "slice", "v": val_json(v), "slices": sl} for v, sl in cases])
    node = BaseNode(code="x")
    for (v, sl), r in zip(cases, res):
        arr = np.array(_plain(v), dtype=int)
        try:
            out = canon(node.slice_value(slice_objects(sl), arr))
        except Exception:
            out = "err"
        nn = any(s[0] == "rng" and s[1] is not None and s[1] == s[2] for s in sl)
        ctx.case(["slice", v, sl], len(sl) > 1 or sl[0][0] == "rng", None)
        ctx.count("slice_stream.%s" % ("n:n" if nn else "plain"))
        if "ok" not in r:
            ctx.disagreement("slice", {"v": str(v), "slices": sl}, "driver %s" % r)
            continue
        mo = from_val_json(r["ok"]["model"])
        sp = from_val_json(r["ok"]["spec"])
        eq = lambda a, b: (a == "err" and b is None) or (a != "err" and b is not None and same_val(a, b))
        # judged only where numpy itself defines the result (ill-formed slices are outside the property)
        try:
            idx = tuple(s[1] if s[0] == "idx" else slice(s[1], s[2]) for s in sl)
            npres = canon(arr[idx])
        except Exception:
            npres = "err"
        if not eq(out, mo):
            if npres == "err":
                ctx.count("outside.slice_impl_ne_model")
            else:
                ctx.disagreement("slice", {"v": v, "slices": sl}, "impl %s model %s" % (out, mo))
        if not eq(out, sp):
            # (only where numpy defines a result: ill-formed slices are outside the property)
            if npres != "err" and sp is not None and same_val(npres, sp):
                ctx.violation("slice:value",
                              "slice_value differs from Python slicing for %s on %s: impl %s, Python %s" % (slices_text(sl), v, out, npres),
                              {"stream": "slice", "v": v, "slices": sl, "impl": out, "python": npres})


def query_stream(ctx, count):
    """NodeList.query names against the model"""
    from scinumtools.dip.lists import NodeList
    from scinumtools.dip.nodes.node_base import BaseNode
    rng = ctx.rng
    cases = []
    comps = ["a", "ab", "b", "c", "a-b", "x_1"]
    for _ in range(count):
        names = []
        for _ in range(rng.randint(1, 7)):
            nm = ".".join(rng.choice(comps) for _ in range(rng.randint(1, 4)))
            if nm not in names:
                names.append(nm)
        base = rng.choice(names).split(".")
        r = rng.random()
        if r < 0.2:
            q = "*"
        elif r < 0.6:
            q = ".".join(base[:rng.randint(1, len(base))]) + ".*"
        elif r < 0.9:
            q = ".".join(base[:rng.randint(1, len(base))])
        else:
            q = rng.choice(["zz", "a.*", "ab", ".*", "a."])
        cases.append((names, q))
    res = ctx.driver.ask_many([{"p": "C17", "k": "query", "names": n, "q": q} for n, q in cases])
    for (names, q), r in zip(cases, res):
        nl = NodeList([BaseNode(code="x", name=n) for n in names])
        out = [n.name for n in nl.query(q)]
        ctx.case(["query", names, q], bool(out), None)
        ctx.count("query_stream")
        wellformed = q == "*" or all(c in comps for c in (q[:-2] if q.endswith(".*") else q).split("."))
        if "ok" not in r or out != r["ok"]:
            if wellformed:
                ctx.disagreement("query", {"names": names, "q": q}, "impl %s model %s" % (out, r))
            else:
                ctx.count("outside.query_impl_ne_model")


def none_programs(rng, count):
    """Programs whose referenced node was SWITCHED OFF (`x = none`) after it had a value: the current value
    of the node at the reference is none, so an injection / import delivers none (never the stale definition
    value), with the host's own unit or else the source's.  Written as text; judged by a direct oracle (the
    Lean model has no 'typed none' value: its `rawValue` falls back to the raw value — see ASSUMPTIONS)."""
    out = []
    kinds = [("float", "5", "cm"), ("float", "2.5", "m"), ("float", "7", None), ("int", "3", None),
             ("bool", "true", None), ("str", '"run1"', None), ("int[2]", "[1,2]", None),
             ("float[2]", "[1.5,2]", "s"), ("bool[2]", "[true,false]", None), ("str[2]", '["a","b"]', None)]
    for i in range(count):
        kw, lit, unit = rng.choice(kinds)
        grp = rng.random() < 0.5
        name = rng.choice(["limit", "a", "x_1"])
        lines, expect = [], {}
        path = ("cfg." + name) if grp else name
        if grp:
            lines.append("cfg")
        ind = "  " if grp else ""
        lines.append("%s%s %s = %s%s" % (ind, name, kw, lit, (" " + unit) if unit else ""))
        if grp and rng.random() < 0.5:
            lines.append("  other int = 4")
            other = True
        else:
            other = False
        if rng.random() < 0.5:     # a reference BEFORE the switch-off still sees the value
            lines.append("early %s = {?%s}" % (kw, path))
            expect["early"] = ("value", unit)
        nmods = rng.choice([1, 1, 2])
        if nmods == 2:             # an ordinary modification first: the LAST assignment is none
            lines.append("%s = %s%s" % (path, lit, (" " + unit) if unit else ""))
        lines.append("%s = none" % path)
        expect[path] = (None, unit)
        if other:
            expect["cfg.other"] = (4, None)
        form = rng.choice(["def", "def-unit", "mod", "imp-exact", "imp-children"] if grp else ["def", "def-unit", "mod", "imp-exact"])
        isfloat = kw.startswith("float") and unit is not None
        if form == "def-unit" and not isfloat:
            form = "def"
        if form == "def":
            lines.append("late %s = {?%s}" % (kw, path))
            expect["late"] = (None, unit)
        elif form == "def-unit":
            u2 = {"cm": "m", "m": "mm", "s": "ms"}[unit]
            lines.append("late %s = {?%s} %s" % (kw, path, u2))
            expect["late"] = (None, u2)
        elif form == "mod":
            lines.insert(0, "late %s = %s%s" % (kw, lit, (" " + unit) if unit else ""))
            lines.append("late = {?%s}" % path)
            expect["late"] = (None, unit)
        elif form == "imp-exact":
            lines.append("copy {?%s}" % path)
            expect["copy." + name] = (None, unit)
        else:
            lines.append("copy {?cfg.*}")
            expect["copy." + name] = (None, unit)
            if other:
                expect["copy.other"] = (4, None)
        out.append(("\n".join(lines) + "\n", expect, form))
    return out


def declared_ref_programs(rng, count):
    """A reference to a node that is only DECLARED (unit, no value yet): the host adopts the declared node's unit when it
    states none (and keeps its own otherwise); both get their numbers later (C17-27)."""
    out = []
    for i in range(count):
        unit = rng.choice(["cm", "m", "s", "kg"])
        own = rng.choice([None, None, {"cm": "m", "m": "mm", "s": "ms", "kg": "g"}[unit]])
        kw = rng.choice(["float", "float", "int"]) if own is None else "float"
        a, b = rng.randint(1, 90), rng.randint(1, 90)
        grp = rng.random() < 0.4
        lines = []
        src = "length"
        if grp:
            lines += ["box", "  length %s %s" % (kw, unit)]
            src = "box.length"
        else:
            lines.append("length %s %s" % (kw, unit))
        lines.append("width %s = {?%s}%s" % (kw, src, (" " + own) if own else ""))
        lines.append("width = %d" % a)
        lines.append("%s = %d" % (src, b))
        expect = {src: (b, unit), "width": (a, own or unit)}
        if rng.random() < 0.4:       # a second host takes the first one's current value and unit
            lines.append("depth %s = {?width}" % kw)
            expect["depth"] = (a, own or unit)
        out.append(("\n".join(lines) + "\n", expect, "declared-source"))
    return out


def none_run(text):
    from scinumtools.dip import DIP
    try:
        with DIP() as p:
            p.add_string(text)
            env = p.parse()
        got = {}
        for n in env.nodes:
            v = n.value
            got[n.name] = ("NOVALUE", None) if v is None else (v.value, getattr(v, "unit", None))
        return got
    except Exception as e:
        return "err: %s: %s" % (type(e).__name__, str(e)[:160])


def none_judge(ctx, text, expect, form, stream="none"):
    got = none_run(text)
    ctx.case([stream, text], True, None)
    ctx.count("%s.%s" % (stream, form))
    replay = {"stream": "none", "text": text, "expect": {k: [None if v[0] is None else str(v[0]), v[1]] for k, v in expect.items()},
              "form": form}
    if isinstance(got, str):
        ctx.violation("none:rejected", "a program that references a node whose current value is none was refused (%s):\n%s" % (got, text), replay)
        return
    if set(got) != set(expect):
        ctx.violation("none:set", "node set %s differs from the expected %s for\n%s" % (sorted(got), sorted(expect), text), replay)
        return
    for k, (ev, eu) in expect.items():
        gv, gu = got[k]
        if ev is None:
            if gv is not None:
                ctx.violation("none:value", "node %s must hold none (the referenced node's CURRENT value after `= none`) but holds %r:\n%s" % (k, gv, text), replay)
                return
        elif ev == "value":
            if gv is None or (isinstance(gv, str) and gv == "NOVALUE"):
                ctx.violation("none:early", "node %s references the node before it was switched off and must hold its value, holds %r:\n%s" % (k, gv, text), replay)
                return
        elif gv != ev:
            ctx.violation("none:sibling", "node %s must hold %r, holds %r:\n%s" % (k, ev, gv, text), replay)
            return
        if (gu or None) != (eu or None):
            ctx.violation("none:unit", "node %s must carry unit %r, carries %r:\n%s" % (k, eu, gu, text), replay)
            return


def none_stream(ctx, count):
    for text, expect, form in none_programs(ctx.rng, count):
        none_judge(ctx, text, expect, form)
    for text, expect, form in declared_ref_programs(ctx.rng, max(10, count // 3)):
        none_judge(ctx, text, expect, form)


def gen_declared(rng):
    """flat programs of declarations, literal definitions and literal modifications (the fragment of
    C17_refinement_declared_partial): nodes are declared without value and assigned later — or never"""
    names = ["a", "b", "c", "d", "e"]
    cat = {}
    lines = []
    for _ in range(rng.randint(2, 7)):
        free = [x for x in names if x not in cat]
        if free and (not cat or rng.random() < 0.5):
            nm = rng.choice(free)
            kw = rng.choice(["float", "float", "int", "str", "bool"])
            shape = [] if rng.random() < 0.7 else [rng.randint(1, 3)]
            unit = rng.choice([None, "m", "cm"]) if kw == "float" else None
            dims = exact_dims(shape, rng)
            cat[nm] = (kw, shape, unit)
            if rng.random() < 0.55:
                lines.append(L("decl", indent=0, name=nm, path=[nm], kw=kw, dims=dims, unit=unit))
            else:
                lines.append(L("def", indent=0, name=nm, path=[nm], kw=kw, dims=dims, val={"lit": gen_value(rng, kw, shape)}, unit=unit))
        else:
            nm = rng.choice(sorted(cat))
            kw, shape, unit = cat[nm]
            # values of the node's own type and shape only: what the casts make of anything else is C14's business
            vkw = kw
            munit = rng.choice([None, "mm", "m"]) if (kw == "float" and unit) else (None if rng.random() < 0.95 else "m")
            lines.append(L("mod", indent=0, name=nm, path=[nm], val={"lit": gen_value(rng, vkw, shape)}, unit=munit))
    if rng.random() < 0.8:
        # assign what is still without value (mostly with a value of the declared type)
        valued = {l["name"] for l in lines if l["k"] in ("def", "mod")}
        for nm in sorted(cat):
            if nm not in valued:
                kw, shape, unit = cat[nm]
                lines.append(L("mod", indent=0, name=nm, path=[nm], val={"lit": gen_value(rng, kw, shape)},
                               unit=rng.choice([None, "mm"]) if (kw == "float" and unit) else None))
    return {"sources": [], "base": None, "main": lines}


def correspond(ctx):
    thorough = ctx.tier == "thorough"
    unit_table()
    prog_stream(ctx, corpus(), "corpus")
    n = 2500 if thorough else 260
    prog_stream(ctx, [("gen", gen_program(ctx.rng)) for _ in range(n)], "gen")
    prog_stream(ctx, [("mal", gen_program(ctx.rng, malformed=True)) for _ in range(n // 3)], "malformed")
    history_stream(ctx, 150 if thorough else 25)
    slice_stream(ctx, 3000 if thorough else 400)
    query_stream(ctx, 3000 if thorough else 400)
    none_stream(ctx, 600 if thorough else 60)
    # last, so that the streams above see the random sequence they saw before this stream existed
    prog_stream(ctx, [("declared", gen_declared(ctx.rng)) for _ in range(600 if thorough else 60)], "declared")


def search(ctx):
    """aimed search after a broken obligation / disagreement: more programs, all modes"""
    before = len(ctx.violations)
    prog_stream(ctx, [("gen", gen_program(ctx.rng)) for _ in range(400)], "search")
    if len(ctx.violations) == before:
        prog_stream(ctx, [("mal", gen_program(ctx.rng, malformed=True)) for _ in range(200)], "search-malformed")


def replay(ctx, payload):
    rp = payload.get("replay", payload)
    if rp.get("stream") == "none":
        exp = {k: ((None if v[0] is None else ("value" if v[0] == "value" else (int(v[0]) if v[0].lstrip("-").isdigit() else v[0]))), v[1])
               for k, v in rp["expect"].items()}
        none_judge(ctx, rp["text"], exp, rp.get("form", "def"), "replay-none")
        return
    if "program" not in rp:
        print(json.dumps(payload, indent=1)[:3000])
        return 2
    prog = rp["program"]
    imp = run_impl(prog)
    print("main text:\n" + text_of(prog["main"]))
    print("impl status:", imp["status"], imp.get("error", ""))
    if "env" in imp:
        print("impl data:", imp["env"]["data"])
    r = ctx.driver.ask(request_of(prog))
    print("spec:", json.dumps(r.get("ok", {}).get("spec"), default=str)[:1500])
    return 0

