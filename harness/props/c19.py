"""C19 — configuration exports: translator (type tables), correspondence exporter-model vs real
exporter (text equality), reader-model vs real tools (gcc, g++, gfortran, rustc, bash, json/yaml/toml
loaders, DIP re-parse), and the oracle real tool vs environment."""
import atexit
import json
import os
import re
import shutil
import subprocess
import tempfile
from concurrent.futures import ThreadPoolExecutor

from harness import core
from harness.core import Ctx

LEAN = core.LEAN
GEN_FILE = LEAN / "SciVerif" / "Generated" / "C19Tables.lean"

RULE = ("corpus of recon inputs and past failures first (corpus/C19/cases.json), then random DIP sources (1-7 parameters; the kind "
        "class bool/int/uint/float/str is drawn first, then one of the widths the live parser accepts; scalars and rectangular arrays "
        "of rank 1-3 with independent extents; type min/max and 0.1/1e-5/1e300-like values; strings from a word list, from an alphabet "
        "with quotes, $, backslash, blanks, from a pool of hostile fragments such as a\\\"b, $HOME, `ls`, \\x41, trailing "
        "backslash, and from a pool of non-ASCII fragments (Latin-1, Greek, CJK, symbols, characters beyond the BMP)) parsed by "
        "the real DIP; strings and (part of the) names also come from a pool of the back-ends' own keywords and emitted tokens "
        "(const, constexpr, #define, pub const, parameter, character(len=3), declare -A, export, true/false, type names ...; "
        "names such as const_g, export_dir, true_val, with renaming on and off); each environment is exported through all 9 back-ends with random options (rename, guard, "
        "define/const lists up to all scalars, module, export, units) and query/tag selections; in addition ONE exporter object per (environment, back-end) lives through a history "
        "parse, parse(other options), select, parse(same options), parse(other options), re-select, parse, parse(other options) "
        "and every parse is compared with the export of a fresh object for the selection and options then in force; "
        "groups and names share prefixes (box / boxes, sim / simul, a / ab) so that a query must not take a neighbour; "
        "export + save, then the same environment with values of equal printed length + save to the same path, and the file "
        "is read back (mode 'w'); "
        "finally environments whose numeric nodes were re-assigned before the export (other unit of the same dimension, same "
        "unit, no unit; scalars and arrays) are exported as DIP text and re-read; non-trivial = selection contains an "
        "array or >= 3 parameters, or a history; distinct = canonical JSON of (source, back-end, options, selection)")
ASSUMPTIONS = [
    "the installed gcc, g++, gfortran (-ffree-line-length-none), rustc, bash (non-interactive: no history expansion of '!') are the "
    "ground truth for what exported text means; json (stdlib), yaml.safe_load, tomllib and the DIP parser are trusted readers",
    "reader models (Lean) cover only text the exporters emit and are validated against the real tools on every run, not derived "
    "from a language semantics",
    "floats are compared exactly (C, C++, Rust, Bash, data formats) or with relative tolerance 1.5e-7 for 32-bit targets and "
    "1e-15 otherwise; Python's repr/float round trip is assumed; -0.0, inf, nan and float32 nodes holding values outside the "
    "binary32 range are outside the domain",
    "Fortran character values are compared modulo trailing blanks (Fortran's own equality); len= is not compared",
    "string VALUES may hold any printable character (ASCII 32..126, and every printable code point above U+00A0, BMP or not); "
    "sources are written and tool output is read as UTF-8; names, units, guards and module names stay ASCII",
    "none values, empty strings, strings with control characters, empty arrays, parameters in `define` that are arrays, names "
    "that are not identifiers after the documented mapping (compiled back-ends) and tag selections with more than one selector are "
    "outside the domain",
    "a preprocessor definition has no declared type: only its value is compared (booleans as 1/0)",
    "histories on one exporter object: the reference for every parse is a fresh object with the same constructor options, the "
    "current selection and the same parse options (whose meaning the other streams check); in the C back-end an "
    "#include <stdbool.h> kept from an earlier export of the same object is not a difference (it defines no symbol)",
    "environments whose nodes were re-assigned before the export (an integer node re-assigned in another unit stores a float) "
    "are judged in the DIP-text back-end, with integer nodes counted by the integers their integral content denotes; a "
    "non-integral content of an integer node is outside the domain; the other back-ends are not judged on such environments "
    "(they write the stored float, e.g. 200.0, for an integer node: see the report)",
    "names that are keywords of a target language on their own are outside the domain (not identifiers there); names and "
    "strings merely containing keywords are inside",
    "rust float128 -> f64 is the documented exception; JSON/YAML/TOML carry no declared widths",
    "the Lean whole-file theorems (C, C++, Rust) assume a (renamed) name without '[' / blank (C, C++) or ':' (Rust), names, guard "
    "and strings without newline, rectangular values without empty levels, `define` only for scalars whose float text is not an "
    "integer numeral (str(float) never is)",
]
EXPLANATION = ("theorems: decimal print/read identity for all integers; every string is read back from the literal the repaired "
               "exporters write (backslash escapes: C/C++/Rust, doubled quote: Fortran, escaped double-quoted word: Bash); the bracket "
               "machine inverts the nested-list printer for all trees; typed initialiser round trip for C/C++ and Rust for every "
               "nested value of every kind; whole C, C++ and Rust files (guard/include frame, line splitting, const/constexpr/#define "
               "and pub const lines) read back as the expected symbols for every parameter list and option; Bash files of any rank (scalars, indexed "
               "and associative arrays) read back as the expected variables; Fortran modules of the kinds Fortran carries (explicit "
               "guard excluding the three literal-kind / unsigned findings) read back as the expected symbols, the unguarded statement "
               "is refuted; Fortran reshape with order=[k..1] undoes the row-major element list for every rectangular "
               "value of any rank (and the default order does not); type tables (regenerated from _parse_dtype and measured with the "
               "compilers) give same class/width/signedness except the listed lacking types; selection characterisation; rename "
               "non-injectivity; shaping; the exporter object as a model: every parse of any select/parse history returns the export of the "
               "selection then in force with the options of that call")

_TMP = None


def tmpdir():
    global _TMP
    if _TMP is None:
        _TMP = tempfile.mkdtemp(prefix="c19_")
        atexit.register(shutil.rmtree, _TMP, ignore_errors=True)
    return _TMP


class ToolFailure(Exception):
    """A tool could not do its job for a reason that has nothing to do with the exported text (killed, out of
    memory, no output at all): the run is void (exit 2), it is never a verdict about the property."""


# every child process gets an explicit UTF-8 locale: nothing may depend on the locale of the caller
CHILD_ENV = dict(os.environ, LC_ALL="C.UTF-8", LANG="C.UTF-8", LANGUAGE="")


def sh(cmd, cwd=None, timeout=300, input=None):
    p = subprocess.run(cmd, cwd=cwd, stdout=subprocess.PIPE, stderr=subprocess.PIPE, text=True,
                       timeout=timeout, input=input, errors="replace", encoding="utf-8", env=CHILD_ENV)
    return p.returncode, p.stdout, p.stderr


TRANSIENT = re.compile(r"internal compiler error|Killed|[Oo]ut of memory|[Cc]annot allocate|No space left|Resource temporarily "
                       r"unavailable|Text file busy|Bus error|Segmentation fault|terminated with signal|signal: |cannot execute|"
                       r"Too many open files|Input/output error|Cannot fork|failed to spawn|could not exec")
DIAGNOSTIC = re.compile(r"\berror\b|\bError\b")


def compile_src(cmd, cwd):
    """Run a compiler.  (True, '') / (False, diagnostics) for a deterministic verdict of the compiler about the
    source; ToolFailure when the compiler itself failed (signal, resources, no diagnostic) even after retries.
    A rejection is only believed when it is reproduced by a second run."""
    last = ""
    for attempt in range(3):
        rc, out, err = sh(cmd, cwd=cwd)
        if rc == 0:
            return True, ""
        last = err or out
        if rc < 0 or TRANSIENT.search(last) or not DIAGNOSTIC.search(last):
            continue                      # not a statement about the source: try again
        rc2, out2, err2 = sh(cmd, cwd=cwd)
        if rc2 == 0:
            return True, ""
        if rc2 > 0 and DIAGNOSTIC.search(err2 or out2) and not TRANSIENT.search(err2 or out2):
            return False, err2 or out2
        last = err2 or out2
    raise ToolFailure("%s failed without a reproducible diagnostic: %s" % (cmd[0], last[-400:]))


def run_exe(exe, cwd):
    """Output of a compiled printer program; it must end with the line `end`.  None when the program fails
    reproducibly (that is a verdict about the exported file), ToolFailure when it fails only sometimes."""
    results = []
    for attempt in range(3):
        rc, out, err = sh([exe], cwd=cwd, timeout=120)
        ok = rc == 0 and out.rstrip().endswith("end")
        if ok:
            return out
        results.append(rc)
        if len(results) >= 2 and all(r > 0 for r in results):
            return None                   # the same ordinary failure twice
    raise ToolFailure("%s did not run to its end: rc %s" % (exe, results))


# =============================================================== translator
KINDS = ["bool", "int", "uint", "float", "str"]
GRID = [("bool", 0), ("str", 0)] + [(k, b) for k in ("int", "uint") for b in (8, 16, 32, 64, 128)] + \
       [("float", b) for b in (16, 32, 64, 80, 96, 128)]


def mk_param(kind, bits, value=None):
    from scinumtools.dip.datatypes import StringType, BooleanType, FloatType, IntegerType
    if kind == "bool":
        return BooleanType(True if value is None else value)
    if kind == "str":
        return StringType("abc" if value is None else value)
    if kind in ("int", "uint"):
        return IntegerType(1 if value is None else value, precision=bits, unsigned=(kind == "uint"))
    return FloatType(1.0 if value is None else value, precision=bits)


def probe_types():
    """`_parse_dtype` of every back-end over the whole (kind, width, signedness) grid."""
    from scinumtools.dip.config import (ExportConfig, ExportConfigC, ExportConfigCPP, ExportConfigFortran,
                                        ExportConfigRust)
    rows = []
    for backend, cls in (("c", ExportConfigC), ("cpp", ExportConfigCPP), ("fortran", ExportConfigFortran),
                         ("rust", ExportConfigRust), ("dip", ExportConfig)):
        for kind, bits in GRID:
            obj = object.__new__(cls)
            obj.includes = []
            obj.rename = True
            p = mk_param(kind, bits)
            try:
                if backend == "fortran":
                    t = obj._parse_dtype(p, '"abc"' if kind == "str" else "1")
                elif backend == "rust":
                    t = obj._parse_dtype(p, p.value)
                elif backend == "dip":
                    obj.data = {"x": p}
                    line = obj.parse()
                    t = line.split(" ")[1]
                else:
                    t = obj._parse_dtype(p)
                if not isinstance(t, str):
                    t = None
            except Exception:
                t = None
            rows.append((backend, kind, bits, t))
    return rows


def probe_dip_types():
    """Which type keywords the real DIP parser accepts, and the (kind, precision) they produce."""
    from scinumtools.dip import DIP
    from scinumtools.dip.settings import Format
    from scinumtools.dip.datatypes import StringType, BooleanType, FloatType, IntegerType
    out = []
    cands = ["bool", "str"] + [u + "int" + b for u in ("", "u") for b in ("", "8", "16", "32", "64", "128")] + \
            ["float" + b for b in ("", "16", "32", "64", "80", "96", "128")]
    for kw in cands:
        val = {"bool": "true", "str": "abc"}.get(kw, "1")
        try:
            with DIP() as dip:
                dip.add_string("x %s = %s" % (kw, val))
                env = dip.parse()
            p = env.data(Format.TYPE)["x"]
        except Exception:
            continue
        if isinstance(p, BooleanType):
            t = ("bool", 0)
        elif isinstance(p, StringType):
            t = ("str", 0)
        elif isinstance(p, IntegerType):
            t = ("uint" if p.unsigned else "int", int(p.precision))
        elif isinstance(p, FloatType):
            t = ("float", int(p.precision))
        else:
            continue
        if t not in out:
            out.append(t)
    return out


C_PROBE = r'''
#include <stdio.h>
%(inc)s
#define P(T, name) do { T x = (T)0.5; T m = (T)-1; \
  printf("%%s|%%d|%%d|%%g\n", name, (int)sizeof(T)*8, (int)(m < 0), (double)x); } while (0)
int main() {
%(body)s
  printf("end\n");
  return 0;
}
'''


def measure_targets(rows):
    """(backend, target) -> (class kind, bits): what the real compilers say the target types are."""
    d = tmpdir()
    info = {}
    jobs = []
    for backend, comp, ext, inc in (("c", "gcc", "c", "#include <stdbool.h>"), ("cpp", "g++", "cpp", "")):
        ts = sorted({t for b, k, n, t in rows if b == backend and t})
        body = "\n".join('  P(%s, "%s");' % (t, t) for t in ts if t != "char*")
        src = os.path.join(d, "probe_%s.%s" % (backend, ext))
        open(src, "w", encoding="utf-8").write(C_PROBE % {"inc": inc, "body": body})
        jobs.append((backend, [comp, "-w", "-o", src + ".x", src], src + ".x"))
        if "char*" in ts:
            info[(backend, "char*")] = ("str", 0)
    # Fortran
    ts = sorted({t for b, k, n, t in rows if b == "fortran" and t and not t.startswith("character")})
    lines = ["program p"]
    for i, t in enumerate(ts):
        lines.append("  %s :: v%d" % (t, i))
    for i, t in enumerate(ts):
        cls = "logical" if t.startswith("logical") else ("real" if t.startswith("real") else "integer")
        lines.append("  print '(A,A,I0,A,A)', '%s', '|', storage_size(v%d), '|', '%s'" % (t, i, cls))
    lines.append("  print '(A)', 'end'")
    lines.append("end program")
    src = os.path.join(d, "probe_f.f90")
    open(src, "w", encoding="utf-8").write("\n".join(lines) + "\n")
    jobs.append(("fortran", ["gfortran", "-w", "-o", src + ".x", src], src + ".x"))
    # Rust
    ts = sorted({t for b, k, n, t in rows if b == "rust" and t})
    lines = ["fn main() {"]
    for t in ts:
        if t == "&str":
            continue
        if t == "bool":
            lines.append('  println!("bool|{}|bool", std::mem::size_of::<bool>()*8);')
        elif t.startswith("f"):
            lines.append('  println!("%s|{}|float", std::mem::size_of::<%s>()*8);' % (t, t))
        else:
            lines.append('  println!("%s|{}|{}", std::mem::size_of::<%s>()*8, if <%s>::MIN < 0 as %s {"int"} else {"uint"});'
                         % (t, t, t, t))
    lines.append('  println!("end");')
    lines.append("}")
    src = os.path.join(d, "probe_r.rs")
    open(src, "w", encoding="utf-8").write("\n".join(lines) + "\n")
    jobs.append(("rust", ["rustc", "-A", "warnings", "-o", src + ".x", src], src + ".x"))
    if "&str" in ts:
        info[("rust", "&str")] = ("str", 0)

    def runjob(j):
        backend, cmd, exe = j
        ok, err = compile_src(cmd, None)
        if not ok:
            raise ToolFailure("type probe does not compile for %s: %s" % (backend, err[-800:]))
        out = run_exe(exe, None)
        if out is None:
            raise ToolFailure("type probe does not run for %s" % backend)
        return backend, out
    with ThreadPoolExecutor(4) as ex:
        for backend, out in ex.map(runjob, jobs):
            for ln in out.splitlines():
                if ln.strip() == "end":
                    continue
                f = [x.strip() for x in ln.split("|")]
                if backend in ("c", "cpp"):
                    name, bits, signed, half = f[0], int(f[1]), int(f[2]), float(f[3])
                    if half == 0.5:
                        info[(backend, name)] = ("float", bits)
                    elif half == 1.0:
                        info[(backend, name)] = ("bool", 0)
                    else:
                        info[(backend, name)] = ("int" if signed else "uint", bits)
                elif backend == "fortran":
                    name, bits, cls = f[0], int(f[1]), f[2]
                    info[(backend, name)] = {"logical": ("bool", 0), "real": ("float", bits),
                                             "integer": ("int", bits)}[cls]
                else:
                    name, bits, cls = f[0], int(f[1]), f[2]
                    info[(backend, name)] = (cls, 0 if cls == "bool" else bits)
    return info


def lean_str(s):
    return 'cs!"%s"' % s.replace("\\", "\\\\").replace('"', '\\"')


def render_tables(rows, info, dip_types):
    out = ["import SciVerif.Model.C19Base",
           "/-! GENERATED by harness/props/c19.py (gen_tables) from the live `_parse_dtype` methods, the live DIP",
           "    parser and the installed compilers.  Do not edit. -/",
           "namespace SciVerif.C19.Gen", "open SciVerif.C19", "",
           "/-- (backend, kind, bits, target type or none when `_parse_dtype` leaves it undefined) -/",
           "def typeRows : List (Str × Kind × Nat × Option Str) := ["]
    out.append(",\n".join("  (%s, Kind.%s, %d, %s)" % (lean_str(b), k, n, ("some (%s)" % lean_str(t)) if t else "none")
                          for b, k, n, t in rows))
    out += ["]", "", "/-- (backend, target type, class, bits) as measured with gcc / g++ / gfortran / rustc -/",
            "def targetInfo : List (Str × Str × Kind × Nat) := ["]
    out.append(",\n".join("  (%s, %s, Kind.%s, %d)" % (lean_str(b), lean_str(t), k, n)
                          for (b, t), (k, n) in sorted(info.items())))
    out += ["]", "", "/-- (kind, bits) of every type keyword the DIP parser accepts -/",
            "def dipTypes : List (Kind × Nat) := ["]
    out.append(",\n".join("  (Kind.%s, %d)" % (k, n) for k, n in dip_types))
    out += ["]", "", "end SciVerif.C19.Gen", ""]
    return "\n".join(out)


def gen_tables(ctx):
    rows = probe_types()
    try:
        info = measure_targets(rows)
    except (ToolFailure, subprocess.TimeoutExpired) as e:
        # a compiler that cannot be run says nothing about the type tables: void run, not a broken obligation
        print("TOOL-FAILURE: %s" % e)
        raise SystemExit(2)
    dip_types = probe_dip_types()
    ctx.extra["type_rows"] = len(rows)
    changed = []
    if core.write_if_changed(GEN_FILE, render_tables(rows, info, dip_types)):
        changed.append(str(GEN_FILE.relative_to(LEAN)))
    return changed


# =============================================================== environments
import math
import random
import re

import numpy as np

_INFO = None     # (backend, target) -> (kind, bits), from the translator run


def target_info():
    global _INFO
    if _INFO is None:
        _INFO = measure_targets(probe_types())
    return _INFO


class P:
    """One parameter of a real, parsed environment (the truth the model and the oracle start from)."""

    def __init__(self, name, kind, bits, value, unit, tags):
        self.name, self.kind, self.bits, self.value, self.unit, self.tags = name, kind, bits, value, unit, tags

    def shape(self):
        return list(np.shape(self.value)) if isinstance(self.value, list) else []

    def flat(self):
        out = []

        def rec(v):
            if isinstance(v, list):
                for x in v:
                    rec(x)
            else:
                out.append(v)
        rec(self.value)
        return out

    def model(self):
        def enc(v):
            if isinstance(v, list):
                return [enc(x) for x in v]
            if isinstance(v, bool):
                return v
            if isinstance(v, int):
                return v
            if isinstance(v, float):
                return {"f": repr(v)}
            return {"s": v}
        return {"name": self.name, "kind": self.kind, "bits": self.bits, "value": enc(self.value),
                "unit": self.unit, "tags": self.tags or []}

    def brief(self):
        return {"name": self.name, "type": "%s%s" % (self.kind, self.bits or ""), "value": self.value,
                "unit": self.unit, "tags": self.tags}


def dip_scalar_text(kind, v):
    if kind == "bool":
        return "true" if v else "false"
    if kind in ("int", "uint"):
        return str(v)
    if kind == "float":
        return repr(v)
    if v.endswith("\\"):
        # a quoted value cannot end with a backslash (it would take the closing quote with it): bare form or give up the ending
        if re.fullmatch(r"[^# '\"{(]+", v):
            return v
        v = v + "_"
    if "'" not in v:
        return "'%s'" % v
    if '"' not in v:
        return '"%s"' % v
    return '"%s"' % v.replace("'", "\\'").replace('"', '\\"')      # DIP reads \' and \" as quote characters


def dip_source(specs):
    """DIP text for a list of (name, kind, bits, value, unit, tags)."""
    lines = []
    for name, kind, bits, value, unit, tags in specs:
        kw = {"bool": "bool", "str": "str", "int": "int", "uint": "uint", "float": "float"}[kind]
        if kind in ("int", "uint") and bits != 32:
            kw += str(bits)
        if kind == "float" and bits != 64:
            kw += str(bits)
        if isinstance(value, list):
            dims = ",".join(str(d) for d in np.shape(value))
            txt = json.dumps(value, separators=(",", ":"))
            if kind == "str":
                # quotes and backslashes inside elements as JSON unicode escapes: no collision with DIP's own quoting
                txt = re.sub(r'\\(["\\])', lambda m: "\\u%04x" % ord(m.group(1)), txt).replace("'", "\\u0027")
            if kind == "str" or " " in txt:
                txt = "'%s'" % txt
            line = "%s %s[%s] = %s" % (name, kw, dims, txt)
        else:
            line = "%s %s = %s" % (name, kw, dip_scalar_text(kind, value))
        if unit:
            line += " " + unit
        lines.append(line)
        if tags:
            lines.append("  !tags %s" % json.dumps(tags, separators=(",", ":")))
    return "\n".join(lines) + "\n"


def integral(v):
    """nested ints for a nested value whose numbers are all integral, else None"""
    if isinstance(v, list):
        out = [integral(x) for x in v]
        return None if any(x is None for x in out) else out
    if isinstance(v, bool):
        return None
    if isinstance(v, int):
        return v
    if isinstance(v, float) and math.isfinite(v) and v == int(v):
        return int(v)
    return None


def parse_env(src, coerce=False):
    """Parse with the real DIP; returns (env, [P]) or None when the source is rejected.
    coerce: an integer node that holds integral floats (it was re-assigned in another unit) counts with the
    integers they denote; a non-integral content of an integer node is outside the domain."""
    from scinumtools.dip import DIP
    from scinumtools.dip.settings import Format
    from scinumtools.dip.datatypes import StringType, BooleanType, FloatType, IntegerType
    try:
        with DIP() as dip:
            dip.add_string(src)
            env = dip.parse()
        data = env.data(Format.TYPE)
        tags = {n.name: (list(n.tags) if getattr(n, "tags", None) else []) for n in env.nodes}
        # the NODE's declared data type (keyword: width, signedness) — the property speaks of the node's type;
        # the value object normally repeats it, but a value assigned in a second step is built separately
        decl = {n.name: (getattr(n, "unsigned", None), getattr(n, "precision", None)) for n in env.nodes}
    except Exception:
        return None
    ps = []
    for name, p in data.items():
        if isinstance(p, BooleanType):
            kind, bits = "bool", 0
        elif isinstance(p, StringType):
            kind, bits = "str", 0
        elif isinstance(p, IntegerType):
            du, dp = decl.get(name, (None, None))
            kind, bits = ("uint" if (p.unsigned if du is None else du) else "int"), int(p.precision if dp is None else dp)
        elif isinstance(p, FloatType):
            dp = decl.get(name, (None, None))[1]
            kind, bits = "float", int(p.precision if dp is None else dp)
        else:
            return None
        value = p.value
        if coerce and kind in ("int", "uint"):
            value = integral(value)
            if value is None:
                return None
        if not well_typed(kind, value):
            return None
        ps.append(P(name, kind, bits, value, p.unit if kind not in ("bool", "str") else None, tags.get(name, [])))
    if len({p.name for p in ps}) != len(ps):
        return None
    return env, ps


def well_typed(kind, v):
    if isinstance(v, list):
        if not v:
            return False
        try:
            sh = np.shape(np.array(v, dtype=object))
        except Exception:
            return False
        return all(well_typed(kind, x) for x in v) and len({str(np.shape(x)) for x in v}) == 1
    if kind == "bool":
        return isinstance(v, bool)
    if kind in ("int", "uint"):
        return isinstance(v, int) and not isinstance(v, bool)
    if kind == "float":
        return isinstance(v, float) and math.isfinite(v) and not (v == 0 and math.copysign(1, v) < 0)
    # printable text: ASCII 32..126 and every printable character outside ASCII (BMP and beyond); no control characters
    return isinstance(v, str) and v != "" and all((32 <= ord(c) < 127) or (ord(c) > 160 and c.isprintable()) for c in v)


# ---------------------------------------------------------------- generators
UNITS = [None, None, "cm", "m", "s", "g/cm3", "kg"]
BENIGN = "abcdefghijklmnopqrstuvwxyzABCXYZ0123456789_ "
SPECIAL = "\"\\$'#!{}[],;:=()%&*"
WORDS = ["Configuration test", "abc", "x", "run 12", "a_b", "Hello World 42", "gamma=5/3", "T", "file.txt", "a,b", "{x}", "[1]"]


HOSTILE = ['a\\"b', "it\\'s", '$HOME', '`ls`', '\\n', 'x\\', '""', "''", '\\\\', 'a" b', "q' r", '${x}', '$(y)', '!!', '\\"', "\\'",
           '"', "'", '\\', 'C:\\dir', '%s %d', '/* c */', '// c', '\\u0041', '\\x41', "\\0", '??/', "a''b", 'a""b', '&amp;', ' #', '#']


# characters outside ASCII: Latin-1, Greek, symbols, CJK (BMP) and beyond the BMP (emoji, mathematical alphanumerics)
NONASCII = ['µm', 'Å', 'Jörg', '°C', 'é', 'Ω', 'λ', '√2', '中文', '€', '😀', '𝛼', 'ÅÅÅÅÅÅ', 'ß', '×10⁻³', 'naïve', '±', '½', 'Ünï',
            '💡x', 'g/cm³', 'Ångström', 'π', '→', '𝔘', 'ÿ', 'Ā', '\uffee', '\U0001f9ea', 'Δt']


# the back-ends' own keywords and emitted tokens, as values (an exporter that post-processes its text must not touch them)
KEYWORDS = ['const', 'constexpr', 'constant', 'reconstruct', 'const_dt', '#define X 1', 'define', 'pub const', 'pub', 'static',
            'parameter', 'character(len=3)', 'declare -A x', 'declare', 'export', 'export X=1', 'true', 'false', '.true.', 'int',
            'double', 'unsigned int', 'char*', 'bool', 'integer', 'real(kind=8)', 'dimension (2)', 'reshape(', 'order=[2,1]',
            'module', 'end module', '&str', 'i32', 'f64', '#include <stdbool.h>', '#endif', '#ifndef CONFIG_H', 'implicit none',
            ':: ', ' = ', ';', 'str', 'float', 'null', '~', 'yes', 'value', 'unit', 'long long int', 'kind=2', '[i32; 2]', '{', '}',
            'CONFIG_H', 'ConfigurationModule', 'u8', 'short']
# ... and as parts of names (never a keyword on their own: such a name is not an identifier of the target language)
KEYWORD_NAMES = ['const_g', 'constant', 'constexpr_k', 'export_dir', 'declare_x', 'pub_key', 'static_v', 'parameter1', 'define_me',
                 'true_val', 'false_f', 'int_n', 'double_x', 'char_c', 'bool_b', 'real_x', 'integer_i', 'kind2', 'end_t', 'module_m',
                 'str_s', 'float_f', 'unsigned_u', 'dimension_d', 'reshape_v', 'order_by', 'character_set', 'i32_v', 'unit_u',
                 'value_v', 'reconst', 'myconst']


def gen_string(rng, special):
    if rng.random() < 0.25:
        s = "".join(rng.choice(KEYWORDS + ([" "] if not special else HOSTILE[:12] + NONASCII[:6]))
                    for _ in range(rng.randint(1, 3))).strip()
        return s or "const"
    if rng.random() < (0.3 if special else 0.15):
        s = "".join(rng.choice(NONASCII + WORDS[:4] + ([" "] if not special else HOSTILE[:12]))
                    for _ in range(rng.randint(1, 3))).strip()
        return s or "µ"
    if not special and rng.random() < 0.5:
        return rng.choice(WORDS)
    if special and rng.random() < 0.4:
        s = "".join(rng.choice(HOSTILE + WORDS[:4]) for _ in range(rng.randint(1, 3))).strip()
        return s or "s"
    n = rng.randint(1, 10)
    s = "".join(rng.choice(BENIGN + (SPECIAL if special else "")) for _ in range(n)).strip()
    return s or "s"


def int_range(kind, bits):
    return (0, 2 ** bits - 1) if kind == "uint" else (-2 ** (bits - 1), 2 ** (bits - 1) - 1)


def gen_int(rng, kind, bits, array):
    lo, hi = int_range(kind, bits)
    if array and bits == 64:            # np.array(dtype=int) holds the elements: int64 range
        lo, hi = max(lo, -2 ** 63), min(hi, 2 ** 63 - 1)
    r = rng.random()
    if r < 0.12:
        return hi
    if r < 0.24:
        return lo
    if r < 0.6:
        return rng.randint(max(lo, -100), min(hi, 100))
    if r < 0.8:
        return rng.randint(max(lo, -2 ** 31 + 1), min(hi, 2 ** 31 - 1))
    return rng.randint(lo, hi)


F_NICE = [0.1, 1e-5, 15.0, 0.5, 23.4, 96.4, 2.0, 1.0, 300000.0, 3.14159, 1e16, 1.5e-7, 0.25, 46.0, 12.0, 1e22, 123456.789]


def gen_float(rng, bits):
    r = rng.random()
    if r < 0.5:
        v = rng.choice(F_NICE)
    elif r < 0.6 and bits != 32:
        v = rng.choice([1e300, 1e-300, 1.7976931348623157e308, 2.2250738585072014e-308])
    elif r < 0.8:
        v = float(rng.randint(-1000, 1000)) / rng.choice([1, 2, 4, 8, 10, 100])
    else:
        v = rng.uniform(-1, 1) * 10.0 ** rng.randint(-30 if bits == 32 else -200, 30 if bits == 32 else 200)
    if rng.random() < 0.2:
        v = -v
    if v == 0:
        v = 0.0
    return v


def gen_shape(rng):
    r = rng.random()
    if r < 0.45:
        return []
    if r < 0.7:
        return [rng.randint(1, 4)]
    if r < 0.9:
        return [rng.randint(1, 3), rng.randint(1, 4)]
    return [rng.randint(1, 3), rng.randint(1, 3), rng.randint(1, 3)]


def build_array(shape, leaf):
    if not shape:
        return leaf()
    return [build_array(shape[1:], leaf) for _ in range(shape[0])]


def gen_specs(rng, dip_types, n, special=False, arrays=True):
    specs = []
    used = set()
    # groups and flat names that share a prefix (box / boxes, sim / simul, a / ab): a query `box.*` must not take `boxes.…`
    groups = ["", "", "box.", "sim.", "grp.sub.", "boxes.", "simul.", "grp.", "a.", "ab."]
    by_kind = {}
    for kb in dip_types:
        by_kind.setdefault(kb[0], []).append(kb)
    for i in range(n):
        # the kind class first (so that bool and str are as frequent as the many numeric widths), then the width
        kind, bits = rng.choice(by_kind[rng.choice(sorted(by_kind))])
        while True:
            if rng.random() < 0.25:
                name = rng.choice(["", "", "", "box.", "sim."]) + rng.choice(KEYWORD_NAMES)
            else:
                name = rng.choice(groups) + rng.choice(["a", "b", "cc", "width", "n1", "val", "name", "k9", "flag", "boxy",
                                                         "sim", "widths"]) + rng.choice(["", "", "x", "2"])
            key = name.upper().replace(".", "_")
            if key not in used and not any(u.startswith(name + ".") or name.startswith(u + ".") for u in
                                           [s[0] for s in specs]):
                used.add(key)
                break
        shape = gen_shape(rng) if arrays else []
        if kind == "bool":
            leaf = lambda: rng.random() < 0.5
        elif kind == "str":
            sp = rng.random() < (0.6 if special else 0.25)
            leaf = lambda: gen_string(rng, sp)
        elif kind in ("int", "uint"):
            leaf = lambda: gen_int(rng, kind, bits, bool(shape))
        else:
            leaf = lambda: gen_float(rng, bits)
        value = build_array(shape, leaf)
        unit = rng.choice(UNITS) if kind in ("int", "uint", "float") else None
        tags = rng.choice([None, None, ["t1"], ["t2"], ["t1", "t2"]])
        specs.append((name, kind, bits, value, unit, tags))
    return specs


# =============================================================== real readers
IDENT = re.compile(r"^[A-Za-z_][A-Za-z0-9_]*$")


def py_rename(name, on=True):
    return name.upper().replace(".", "_") if on else name


def hexs(s):
    return s.encode("latin-1", "replace").hex()


def loops(shape, var="c19_i"):
    return ["%s%d" % (var, k) for k in range(len(shape))]


C_MAIN = r'''
#include <stdio.h>
#include <string.h>
#include "%(header)s"
#define TY(x) __typeof__(x)
#define PNUM(E) do { double c19_h_ = (double)(TY(E))0.5; \
  if (c19_h_ == 0.5) printf("e f %%.21Lg\n", (long double)(E)); \
  else if ((E) < 0) printf("e i %%lld\n", (long long)(E)); \
  else printf("e i %%llu\n", (unsigned long long)(E)); } while (0)
#define PTYPE(E) printf("type %%d %%d %%g\n", (int)sizeof(E)*8, (int)((TY(E))-1 < 0), (double)(TY(E))0.5)
static void pstr(const char *s) { size_t n = strlen(s); printf("e s "); for (size_t i = 0; i < n; i++) printf("%%02x", (unsigned char)s[i]); printf("\n"); }
int main(void) {
%(body)s
  printf("end\n");
  return 0;
}
'''


def c_body(idx, sym):
    """sym: dict(name, kind, shape, macro)"""
    name, shape = sym["name"], sym["shape"]
    ix = loops(shape)
    elem = name + "".join("[%s]" % v for v in ix)
    first = name + "".join("[0]" for _ in shape)
    out = ['  printf("sym %d\\n");' % idx]
    dims = []
    cur = name
    for _ in shape:
        dims.append("sizeof(%s)/sizeof(%s[0])" % (cur, cur))
        cur += "[0]"
    out.append('  printf("dims%s\\n"%s);' % (" %zu" * len(dims), "".join(", " + d for d in dims)))
    if sym["kind"] == "str":
        out.append('  { const char *c19_t_ = %s; printf("type %%d 0 -1\\n", (int)sizeof(%s)*8); (void)c19_t_; }' % (first, first))
        pr = "pstr(%s);" % elem
    else:
        out.append("  PTYPE(%s);" % first)
        pr = "PNUM(%s);" % elem
    pre = "".join("for (size_t %s = 0; %s < %d; %s++) " % (v, v, d, v) for v, d in zip(ix, shape))
    out.append("  " + pre + "{ " + pr + " }")
    return "\n".join(out)


def parse_obs(out):
    """common line protocol -> {idx: {dims, type, elems}}"""
    res = {}
    cur = None
    for ln in out.splitlines():
        f = ln.split(" ")
        if f[0] == "sym":
            cur = {"dims": None, "type": None, "elems": []}
            res[int(f[1])] = cur
        elif cur is None:
            continue
        elif f[0] == "dims":
            cur["dims"] = [int(x) for x in f[1:] if x != ""]
        elif f[0] == "type":
            cur["type"] = f[1:]
        elif f[0] == "e":
            cur["elems"].append(f[1:])
    return res


def obs_c(o):
    """observation of the C/C++ printer -> canonical dict"""
    bits, signed, half = int(o["type"][0]), int(o["type"][1]), float(o["type"][2])
    if half == -1:
        kind, bits = "str", 0
    elif half == 0.5:
        kind = "float"
    elif half == 1.0:
        kind, bits = "bool", 0
    else:
        kind = "int" if signed else "uint"
    elems = []
    for e in o["elems"]:
        if e[0] == "s":
            elems.append(bytes.fromhex(e[1] if len(e) > 1 else "").decode("utf-8", "replace"))
        elif e[0] == "f":
            elems.append(float(e[1]))
        else:
            elems.append(int(e[1]))
    if kind == "bool":
        elems = [bool(x) for x in elems]
    return {"kind": kind, "bits": bits, "shape": o["dims"], "elems": elems}


def split_c(text):
    """(header lines, body lines, footer lines) of an exported C/C++ header"""
    ls = text.split("\n")
    try:
        end = max(i for i, l in enumerate(ls) if l.startswith("#endif"))
    except ValueError:
        return ls, [], []
    start = 3
    if len(ls) > 3 and ls[3].startswith("#include"):
        start = 5
    return ls[:start], ls[start:end - 1], ls[end - 1:]


def run_c(workdir, tag, text, syms, cpp):
    comp, ext = ("g++", "cpp") if cpp else ("gcc", "c")
    hdr = os.path.join(workdir, "%s.h" % tag)
    src = os.path.join(workdir, "%s_main.%s" % (tag, ext))
    exe = os.path.join(workdir, "%s.x" % tag)
    open(hdr, "w", encoding="utf-8").write(text + "\n")
    body = "\n".join(c_body(i, s) for i, s in syms)
    open(src, "w", encoding="utf-8").write(C_MAIN % {"header": os.path.basename(hdr), "body": body})
    ok, err = compile_src([comp, "-w", "-Werror=int-conversion", "-finput-charset=UTF-8", "-o", exe, src], workdir)
    if not ok:
        return None, err
    out = run_exe(exe, workdir)
    if out is None:
        return None, "run failed"
    return parse_obs(out), ""


def read_c(workdir, tag, text, syms, cpp=False):
    """syms: list of dict(name, kind, shape, macro).  Returns list of canonical observations or 'err'."""
    ok = [(i, s) for i, s in enumerate(syms) if IDENT.match(s["name"])]
    res = ["err"] * len(syms)
    obs, err = run_c(workdir, tag, text, ok, cpp)
    if obs is not None:
        for i, s in ok:
            res[i] = obs_c(obs[i]) if i in obs and obs[i]["type"] else "err"
        return res
    # one translation unit per declaration
    head, body, foot = split_c(text)
    if len(body) != len(syms):
        return res
    for i, s in ok:
        one = "\n".join(head + [body[i]] + foot)
        obs, err = run_c(workdir, "%s_%d" % (tag, i), one, [(i, s)], cpp)
        if obs is not None and i in obs and obs[i]["type"]:
            res[i] = obs_c(obs[i])
    return res


# ---------------------------------------------------------------- Fortran
F_PRINTERS = r'''
module c19_printers
  implicit none
  interface c19_pe
    module procedure pe_i2, pe_i4, pe_i8, pe_r4, pe_r8, pe_r16, pe_l, pe_c
  end interface
contains
  subroutine pe_i2(x)
    integer(kind=2), intent(in) :: x
    print '(A,1X,I0)', 'e int 16', x
  end subroutine
  subroutine pe_i4(x)
    integer(kind=4), intent(in) :: x
    print '(A,1X,I0)', 'e int 32', x
  end subroutine
  subroutine pe_i8(x)
    integer(kind=8), intent(in) :: x
    print '(A,1X,I0)', 'e int 64', x
  end subroutine
  subroutine pe_r4(x)
    real(kind=4), intent(in) :: x
    print '(A,1X,ES60.40E4)', 'e float 32', real(x, kind=16)
  end subroutine
  subroutine pe_r8(x)
    real(kind=8), intent(in) :: x
    print '(A,1X,ES60.40E4)', 'e float 64', real(x, kind=16)
  end subroutine
  subroutine pe_r16(x)
    real(kind=16), intent(in) :: x
    print '(A,1X,ES60.40E4)', 'e float 128', x
  end subroutine
  subroutine pe_l(x)
    logical, intent(in) :: x
    print '(A,1X,L1)', 'e bool 0', x
  end subroutine
  subroutine pe_c(x)
    character(len=*), intent(in) :: x
    integer :: i
    write (*, '(A,1X,I0,1X)', advance='no') 'e str', len(x)
    do i = 1, len(x)
      write (*, '(Z2.2)', advance='no') ichar(x(i:i))
    end do
    print *
  end subroutine
end module c19_printers
'''


def f_body(idx, sym):
    name, shape = sym["name"], sym["shape"]
    ix = loops(shape)
    out = ["  print '(A)', 'sym %d'" % idx]
    if shape:
        out.append("  print '(A,*(1X,I0))', 'dims', shape(%s)" % name)
        elem = "%s(%s)" % (name, ",".join(ix))
    else:
        out.append("  print '(A,1X,I0)', 'rank', rank(%s)" % name)
        elem = name
    for v, d in zip(ix, shape):
        out.append("  do %s = 1, %d" % (v, d))
    out.append("  call c19_pe(%s)" % elem)
    for _ in shape:
        out.append("  end do")
    return "\n".join(out)


def run_f(workdir, tag, text, syms, module):
    src = os.path.join(workdir, "%s.f90" % tag)
    exe = os.path.join(workdir, "%s.x" % tag)
    body = "\n".join(f_body(i, s) for i, s in syms)
    prog = ("program c19_main\n  use c19_printers\n  use %s\n  implicit none\n  integer :: c19_i0, c19_i1, c19_i2, c19_i3\n%s\n"
            "  print '(A)', 'end'\nend program\n") % (module, body)
    open(src, "w", encoding="utf-8").write(text + "\n" + F_PRINTERS + prog)
    ok, err = compile_src(["gfortran", "-w", "-ffree-line-length-none", "-J", os.path.join(workdir, tag + "_mod"), "-o", exe, src],
                          workdir)
    if not ok:
        return None, err
    out = run_exe(exe, workdir)
    if out is None:
        return None, "run failed"
    res = {}
    cur = None
    for ln in out.splitlines():
        f = ln.split()
        if not f:
            continue
        if f[0] == "sym":
            cur = {"dims": [], "kinds": set(), "elems": [], "rank": None}
            res[int(f[1])] = cur
        elif cur is None:
            continue
        elif f[0] == "dims":
            cur["dims"] = [int(x) for x in f[1:]]
        elif f[0] == "rank":
            cur["rank"] = int(f[1])
        elif f[0] == "e":
            kind, bits = f[1], int(f[2])
            if kind == "str":
                n = int(f[2])
                cur["kinds"].add(("str", 0))
                cur["elems"].append(bytes.fromhex(f[3] if len(f) > 3 else "").decode("utf-8", "replace"))
            else:
                cur["kinds"].add((kind, bits))
                if kind == "int":
                    cur["elems"].append(int(f[3]))
                elif kind == "float":
                    cur["elems"].append(float(f[3]))
                else:
                    cur["elems"].append(f[3] == "T")
    return res, ""


def obs_f(o):
    if len(o["kinds"]) != 1 or (o["rank"] not in (None, 0)):
        return "err"
    kind, bits = list(o["kinds"])[0]
    return {"kind": kind, "bits": bits, "shape": o["dims"], "elems": o["elems"]}


def read_fortran(workdir, tag, text, syms, module):
    ok = [(i, s) for i, s in enumerate(syms) if IDENT.match(s["name"])]
    res = ["err"] * len(syms)
    os.makedirs(os.path.join(workdir, tag + "_mod"), exist_ok=True)
    if not IDENT.match(module):
        return res
    obs, err = run_f(workdir, tag, text, ok, module)
    if obs is not None:
        for i, s in ok:
            res[i] = obs_f(obs[i]) if i in obs else "err"
        return res
    ls = text.split("\n")
    head, body, foot = ls[:3], ls[3:-2], ls[-2:]
    if len(body) != len(syms):
        return res
    for i, s in ok:
        one = "\n".join(head + [body[i]] + foot)
        t2 = "%s_%d" % (tag, i)
        os.makedirs(os.path.join(workdir, t2 + "_mod"), exist_ok=True)
        obs, err = run_f(workdir, t2, one, [(i, s)], module)
        if obs is not None and i in obs:
            res[i] = obs_f(obs[i])
    return res


# ---------------------------------------------------------------- Rust
R_MAIN = r'''
#![allow(warnings)]
include!("%(file)s");
trait C19P { fn c19_p(&self); }
macro_rules! c19_pint { ($($t:ty),*) => { $(impl C19P for $t { fn c19_p(&self) { println!("e {} {}", stringify!($t), self); } })* } }
c19_pint!(i8, i16, i32, i64, i128, u8, u16, u32, u64, u128);
impl C19P for bool { fn c19_p(&self) { println!("e bool {}", self); } }
impl C19P for f32 { fn c19_p(&self) { println!("e f32 {:?}", *self as f64); } }
impl C19P for f64 { fn c19_p(&self) { println!("e f64 {:?}", self); } }
impl C19P for &str { fn c19_p(&self) { print!("e str "); for c19_b in self.bytes() { print!("{:02x}", c19_b); } println!(); } }
impl<C19T: C19P, const C19N: usize> C19P for [C19T; C19N] { fn c19_p(&self) { println!("open {}", C19N); for c19_x in self.iter() { c19_x.c19_p(); } println!("close"); } }
fn main() {
%(body)s
  println!("end");
}
'''


def run_rust(workdir, tag, text, syms):
    cfg = os.path.join(workdir, "%s_cfg.rs" % tag)
    src = os.path.join(workdir, "%s_main.rs" % tag)
    exe = os.path.join(workdir, "%s.x" % tag)
    open(cfg, "w", encoding="utf-8").write(text + "\n")
    body = "\n".join('  println!("sym %d"); println!("size {}", std::mem::size_of_val(&%s)); %s.c19_p();' % (i, s["name"], s["name"])
                     for i, s in syms)
    open(src, "w", encoding="utf-8").write(R_MAIN % {"file": os.path.basename(cfg), "body": body})
    ok, err = compile_src(["rustc", "--edition", "2021", "-C", "debuginfo=0", "-C", "opt-level=0", "-o", exe, src], workdir)
    if not ok:
        return None, err
    out = run_exe(exe, workdir)
    if out is None:
        return None, "run failed"
    res = {}
    cur = None
    for ln in out.splitlines():
        f = ln.split(" ")
        if f[0] == "sym":
            cur = {"stack": [[]], "types": set(), "size": None}
            res[int(f[1])] = cur
        elif cur is None:
            continue
        elif f[0] == "size":
            cur["size"] = int(f[1])
        elif f[0] == "open":
            cur["stack"].append([])
        elif f[0] == "close":
            top = cur["stack"].pop()
            cur["stack"][-1].append(top)
        elif f[0] == "e":
            t = f[1]
            cur["types"].add(t)
            if t == "str":
                v = bytes.fromhex(f[2] if len(f) > 2 else "").decode("utf-8", "replace")
            elif t == "bool":
                v = f[2] == "true"
            elif t in ("f32", "f64"):
                v = float(f[2])
            else:
                v = int(f[2])
            cur["stack"][-1].append(v)
    return res, ""


def obs_rust(o):
    if len(o["types"]) != 1 or len(o["stack"]) != 1 or len(o["stack"][0]) != 1:
        return "err"
    t = list(o["types"])[0]
    v = o["stack"][0][0]
    kind, bits = {"str": ("str", 0), "bool": ("bool", 0), "f32": ("float", 32), "f64": ("float", 64)}.get(t, (None, None))
    if kind is None:
        kind, bits = ("int" if t[0] == "i" else "uint"), int(t[1:])
    try:
        shape = list(np.shape(np.array(v, dtype=object))) if isinstance(v, list) else []
    except Exception:
        return "err"
    p = P("", kind, bits, v, None, None)
    return {"kind": kind, "bits": bits, "shape": shape, "elems": p.flat()}


def read_rust(workdir, tag, text, syms):
    ok = [(i, s) for i, s in enumerate(syms) if IDENT.match(s["name"])]
    res = ["err"] * len(syms)
    obs, err = run_rust(workdir, tag, text, ok)
    if obs is not None:
        for i, s in ok:
            res[i] = obs_rust(obs[i]) if i in obs else "err"
        return res
    body = text.split("\n")
    if len(body) != len(syms):
        return res
    for i, s in ok:
        obs, err = run_rust(workdir, "%s_%d" % (tag, i), body[i], [(i, s)])
        if obs is not None and i in obs:
            res[i] = obs_rust(obs[i])
    return res


# ---------------------------------------------------------------- Bash
def bash_chunks(text):
    """the lines of each parameter: `declare -A N` + its `N[..]=` lines + `export N`, else one line"""
    chunks = []
    for ln in text.split("\n"):
        if ln.startswith("declare -A "):
            chunks.append([ln])
        elif chunks and chunks[-1][0].startswith("declare -A ") and (
                ln.startswith(chunks[-1][0][len("declare -A "):] + "[") or ln == "export " + chunks[-1][0][len("declare -A "):]):
            chunks[-1].append(ln)
        else:
            chunks.append([ln])
    return chunks


def read_bash(workdir, tag, text, syms):
    """returns per symbol {'attr': str, 'items': {key: value}} or 'err'.  Every parameter's lines are sourced in
    their own subshell, so a parameter that breaks the file (unbalanced quote) is not blamed on its neighbours."""
    chunks = bash_chunks(text) if text else []
    whole = len(chunks) != len(syms)
    lines = ["PATH=/nonexistent"]
    ok = [(i, s) for i, s in enumerate(syms) if IDENT.match(s["name"])]
    if whole:
        cfg = os.path.join(workdir, "%s.sh" % tag)
        open(cfg, "w", encoding="utf-8").write(text + "\n")
        lines.append("source ./%s 2>/dev/null" % os.path.basename(cfg))
    for i, s in ok:
        n = s["name"]
        if not whole:
            cfg = os.path.join(workdir, "%s_%d.sh" % (tag, i))
            open(cfg, "w", encoding="utf-8").write("\n".join(chunks[i]) + "\n")
            lines.append("( source ./%s 2>/dev/null" % os.path.basename(cfg))
        lines.append("printf 'sym\\0%%s\\0attr\\0%%s\\0' %d \"${%s@a}\"" % (i, n))
        lines.append("for c19_k_ in \"${!%s[@]}\"; do printf 'k\\0%%s\\0v\\0%%s\\0' \"$c19_k_\" \"${%s[$c19_k_]}\"; done" % (n, n))
        if not whole:
            lines.append(")")
    lines.append("printf 'end\\0'")
    script = os.path.join(workdir, "%s_main.sh" % tag)
    open(script, "w", encoding="utf-8").write("\n".join(lines) + "\n")
    for attempt in range(3):
        p = subprocess.run(["bash", "--norc", "--noprofile", script], cwd=workdir, stdout=subprocess.PIPE,
                           stderr=subprocess.DEVNULL, timeout=120,
                           env={"PATH": "/usr/bin:/bin", "LC_ALL": "C.UTF-8", "LANG": "C.UTF-8"})
        if p.stdout.endswith(b"end\0"):
            break
    else:
        if whole:
            return ["err"] * len(syms)       # the sourced file itself ended the shell (exit / syntax): a verdict
        raise ToolFailure("bash did not run the reading script to its end (rc %s)" % p.returncode)
    toks = p.stdout.decode("utf-8", "replace").split("\0")
    res = ["err"] * len(syms)
    cur = None
    j = 0
    while j < len(toks) - 1:
        t = toks[j]
        if t == "sym":
            cur = {"attr": "", "items": {}}
            res[int(toks[j + 1])] = cur
            j += 2
        elif t == "attr" and cur is not None:
            cur["attr"] = toks[j + 1]
            j += 2
        elif t == "k" and cur is not None and j + 3 < len(toks):
            cur["items"][toks[j + 1]] = toks[j + 3]
            j += 4
        else:
            j += 1
    return res


# =============================================================== one case = (environment, back-end, options)
TYPED = ("c", "cpp", "fortran", "rust")
DATA = ("json", "yaml", "toml")
LACKING = {("rust", "float", 128): ("float", 64)}     # documented: "exported as 64 bit variables"
F32_MAX = 3.4028234663852886e38
F32_MIN = 1.1754943508222875e-38


def real_export(env, backend, opts, query, tags):
    from scinumtools.dip import config as cfg
    cls = {"c": cfg.ExportConfigC, "cpp": cfg.ExportConfigCPP, "fortran": cfg.ExportConfigFortran,
           "rust": cfg.ExportConfigRust, "bash": cfg.ExportConfigBash, "json": cfg.ExportConfigJSON,
           "yaml": cfg.ExportConfigYAML, "toml": cfg.ExportConfigTOML, "dip": cfg.ExportConfig}[backend]
    kw = {}
    if "rename" in opts:
        kw["rename"] = opts["rename"]
    pk = {}
    for k in ("guard", "define", "const", "module", "export", "units"):
        if k in opts:
            pk[k] = opts[k]
    try:
        with cls(env, **kw) as e:
            if query is not None or tags is not None:
                e.select(query=query, tags=tags)
            keys = list(e.data.keys())
            text = e.parse(**pk)
        return keys, text
    except Exception as ex:
        return None, "raised %s" % type(ex).__name__


def spec_select(ps, query, tags):
    """What the documentation says a query / tag selection exports (name relative to the query)."""
    out = []
    for p in ps:
        if query is None or query == "*":
            name = p.name
        elif query.endswith(".*"):
            if not p.name.startswith(query[:-1]):
                continue
            name = p.name[len(query) - 1:]
        else:
            if p.name != query:
                continue
            name = p.name.split(".")[-1]
        if tags and not any(t in (p.tags or []) for t in tags):
            continue
        out.append(P(name, p.kind, p.bits, p.value, p.unit, p.tags))
    return out


def fclose(a, b, bits):
    if a == b:
        return True
    if not (math.isfinite(a) and math.isfinite(b)):
        return False
    tol = 1.5e-7 if bits == 32 else 1e-15
    return abs(a - b) <= tol * max(abs(a), abs(b)) + (3e-45 if bits == 32 else 0.0)


def elems_equal(kind, bits, exp, obs, pad=False):
    if len(exp) != len(obs):
        return False
    for a, b in zip(exp, obs):
        if kind == "float":
            if not isinstance(b, float) or not fclose(a, b, bits):
                return False
        elif kind == "str":
            if not isinstance(b, str) or (a.rstrip(" ") != b.rstrip(" ") if pad else a != b):
                return False
        elif kind == "bool":
            if not isinstance(b, bool) or a != b:
                return False
        else:
            if isinstance(b, bool) or not isinstance(b, int) or a != b:
                return False
    return True


def judge_typed(backend, p, macro, obs):
    """None when the observation meets the property for parameter p, else a short reason."""
    if obs == "err":
        return "compile-error"
    kind, bits = p.kind, p.bits
    ekind, ebits = LACKING.get((backend, kind, bits), (kind, bits))
    if macro:
        # a preprocessor definition has no declared type: only the value is compared (booleans are 1 / 0)
        exp = [int(x) if kind == "bool" else x for x in p.flat()]
        k2 = "int" if kind in ("bool", "uint") else kind
        ob = obs["elems"]
        if kind == "float" and ob and isinstance(ob[0], int):
            ob = [float(x) for x in ob]
        return None if obs["shape"] == [] and elems_equal(k2, 64, exp, ob) else "value"
    if obs["shape"] != p.shape():
        return "shape"
    if obs["kind"] != ekind or (ekind in ("int", "uint", "float") and obs["bits"] != ebits):
        return "type"
    if not elems_equal(kind, ebits, p.flat(), obs["elems"], pad=(backend == "fortran")):
        return "value"
    return None


def classify(backend, p, reason, obs):
    """Stable signature of a failing (back-end, parameter) class."""
    flat = p.flat()
    if backend == "dip" and isinstance(p.value, list):
        return "dip:array"
    if p.kind == "str":
        if backend == "dip" and not isinstance(p.value, list) and p.value.endswith("\\"):
            return "dip:string-trailing-backslash"
        if any('"' in s for s in flat):
            return "%s:string-with-quote" % backend
        if any("\\" in s for s in flat) and backend != "fortran":
            return "%s:string-with-backslash" % backend
        if backend == "bash" and any(c in s for s in flat for c in "$`!"):
            return "bash:string-with-expansion"
        if any(ord(ch) > 127 for s in flat for ch in s):
            return "%s:non-ascii" % backend
        if backend == "fortran" and reason == "compile-error" and len({len(s) for s in flat}) > 1:
            return "fortran:str-array-different-lengths"
    if backend == "fortran":
        if p.kind == "uint":
            if reason == "type" or (reason == "compile-error" and any(v >= 2 ** (p.bits - 1) or v > 2 ** 31 - 1 for v in flat)):
                return "fortran:unsigned"
        if p.kind == "int" and reason == "compile-error" and any(abs(v) > 2 ** 31 - 1 for v in flat):
            return "fortran:int-literal-kind"
        if p.kind == "float" and p.bits > 32:
            lossy = [v for v in flat if not fclose(v, float(np.float32(v)), 64)]
            if lossy:
                over = any(abs(v) > F32_MAX or 0 < abs(v) < F32_MIN for v in flat)
                if reason == "compile-error" and over:
                    return "fortran:real-literal-kind"
                if reason == "value" and obs != "err" and all(
                        isinstance(o, float) and fclose(o, float(np.float32(v)), 32) for v, o in zip(flat, obs["elems"])):
                    return "fortran:real-literal-kind"
    if backend == "dip" and isinstance(p.value, list):
        return "dip:array"
    rank = len(p.shape())
    return "%s:%s%s:%s:%s" % (backend, p.kind, p.bits or "", "scalar" if rank == 0 else ("rank1" if rank == 1 else "rank>=2"), reason)


def model_sym_canon(backend, s, info):
    """Lean reader result -> the canonical observation the real tool should produce."""
    decl = s["decl"]
    macro = decl == "macro"
    flat = []

    def rec(v):
        if isinstance(v, list):
            for x in v:
                rec(x)
        else:
            flat.append(v)
    rec(s["value"])
    vals = []
    for v in flat:
        if isinstance(v, dict) and "f" in v:
            vals.append(float(v["f"]))
        elif isinstance(v, dict):
            vals.append(v["s"])
        else:
            vals.append(v)
    if macro:
        return {"macro": True, "shape": s["shape"], "elems": vals}
    if backend == "fortran" and decl.startswith("character"):
        kind, bits = "str", 0
    else:
        kind, bits = info.get((backend, decl), (None, None))
    if kind == "float":
        if s["narrow"]:
            if any(abs(v) > F32_MAX for v in vals):
                return "err"                 # gfortran: real constant overflows its kind
            vals = [float(np.float32(v)) for v in vals]
        if bits == 32:
            vals = [float(np.float32(v)) for v in vals]
    return {"kind": kind, "bits": bits, "shape": s["shape"], "elems": vals,
            "tolbits": 32 if (kind == "float" and (bits == 32 or s["narrow"])) else 64}


def same_obs(backend, m, o):
    """reader model prediction vs real tool observation"""
    if m == "err" or o == "err":
        return m == o
    if m.get("macro"):
        ob = o["elems"]
        me = [int(x) if isinstance(x, bool) else x for x in m["elems"]]
        if me and isinstance(me[0], float):
            ob = [float(x) for x in ob]
        return o["shape"] == [] and len(me) == len(ob) and all(
            (fclose(a, b, 64) if isinstance(a, float) and isinstance(b, float) else a == b) for a, b in zip(me, ob))
    if m["kind"] != o["kind"] or m["shape"] != o["shape"]:
        return False
    if m["kind"] in ("int", "uint", "float") and m["bits"] != o["bits"]:
        return False
    return elems_equal(m["kind"], m.get("tolbits", 64), m["elems"], o["elems"],
                       pad=(backend == "fortran"))


# =============================================================== correspondence
class Case:
    def __init__(self, src, env, ps, backend, opts, query=None, tags=None, origin="gen"):
        self.src, self.env, self.ps, self.backend, self.opts = src, env, ps, backend, opts
        self.query, self.tags, self.origin = query, tags, origin

    def request(self):
        return {"p": "C19", "k": "case", "backend": self.backend, "env": [p.model() for p in self.ps],
                "query": self.query, "tags": self.tags, "opts": self.opts}

    def replay(self, **extra):
        r = {"source": self.src, "backend": self.backend, "opts": self.opts, "query": self.query, "tags": self.tags}
        r.update(extra)
        return r


def gen_options(rng, backend, sel):
    """sel: selected parameters (relative names)"""
    scalars = [p.name for p in sel if not isinstance(p.value, list)]
    flat = all(IDENT.match(p.name) for p in sel)
    o = {}
    if backend in ("c", "cpp", "fortran", "rust", "bash"):
        o["rename"] = not (flat and rng.random() < 0.3)
    if backend in ("c", "cpp"):
        if rng.random() < 0.4:
            o["guard"] = rng.choice(["CONFIG_H", "MY_GUARD", "SETTINGS_HPP_"])
        k = rng.choice([0, 0, 1, 2, 9])
        o["define"] = rng.sample(scalars, min(k, len(scalars)))
        if backend == "cpp":
            rest = [p.name for p in sel if p.name not in o["define"]]
            o["const"] = rng.sample(rest, min(rng.choice([0, 1, 2]), len(rest)))
    if backend == "fortran" and rng.random() < 0.3:
        o["module"] = rng.choice(["ConfigurationModule", "settings_mod"])
    if backend == "bash":
        o["export"] = rng.random() < 0.6
    if backend in DATA:
        o["units"] = rng.random() < 0.6
    return o


def gen_selection(rng, ps):
    r = rng.random()
    if r < 0.6:
        return None, None
    prefixes = sorted({p.name.rsplit(".", 1)[0] for p in ps if "." in p.name})
    q = None
    if r < 0.75 and prefixes:
        q = rng.choice(prefixes) + ".*"
    elif r < 0.85:
        q = rng.choice(ps).name
    elif r < 0.9:
        q = "*"
    t = None
    if rng.random() < 0.5 or q is None:
        t = [rng.choice(["t1", "t2"])]
    return q, t


BACKENDS = ["c", "cpp", "fortran", "rust", "bash", "json", "yaml", "toml", "dip"]


def corpus_cases(dip_types):
    """Recon inputs and past failures: exercised first on every run."""
    out = []
    path = core.VERIF / "corpus" / "C19" / "cases.json"
    if path.exists():
        for c in json.loads(path.read_text(encoding="utf-8")):
            r = parse_env(c["source"])
            if r is None:
                continue
            for b in c["backends"]:
                out.append(Case(c["source"], r[0], r[1], b, dict(c.get("opts", {}).get(b, {})), c.get("query"), c.get("tags"),
                                origin="corpus:" + c["id"]))
    return out


def decode_cp(o):
    """driver output: {"cp": [code points]} -> str (the driver writes ASCII only)"""
    if isinstance(o, dict):
        if set(o) == {"cp"} and isinstance(o["cp"], list):
            return "".join(chr(x) for x in o["cp"])
        return {k: decode_cp(v) for k, v in o.items()}
    if isinstance(o, list):
        return [decode_cp(x) for x in o]
    return o


def _ascii(s):
    return s.encode("ascii", "backslashreplace").decode("ascii") if isinstance(s, str) else s


def ascii_reports(ctx):
    """report texts are printed by the caller: keep them ASCII so that printing cannot fail in any locale"""
    if getattr(ctx, "_c19_ascii", False):
        return
    ctx._c19_ascii = True
    v0, d0 = ctx.violation, ctx.disagreement
    ctx.violation = lambda signature, what, replay: v0(signature, _ascii(what), replay)
    ctx.disagreement = lambda stream, replay, detail="": d0(stream, replay, _ascii(detail))


def run_cases(ctx, cases, workers=12):
    ascii_reports(ctx)
    info = target_info()
    work = tmpdir()
    reqs = [c.request() for c in cases]
    res = [decode_cp(r) for r in ctx.driver.ask_many(reqs)] if reqs else []
    impl = [real_export(c.env, c.backend, c.opts, c.query, c.tags) for c in cases]

    def real_read(i):
        c = cases[i]
        keys, text = impl[i]
        if keys is None:
            return None
        sel = spec_select(c.ps, c.query, c.tags)
        b = c.backend
        ren = c.opts.get("rename", True)
        tag = "k%d" % i
        if b in TYPED or b == "bash":
            syms = [{"name": py_rename(p.name, ren), "kind": p.kind, "shape": p.shape(),
                     "macro": p.name in c.opts.get("define", [])} for p in sel]
            if len({s["name"] for s in syms}) != len(syms):
                return "collision"
            if b == "c":
                return read_c(work, tag, text, syms)
            if b == "cpp":
                return read_c(work, tag, text, syms, cpp=True)
            if b == "fortran":
                return read_fortran(work, tag, text, syms, c.opts.get("module", "ConfigurationModule"))
            if b == "rust":
                return read_rust(work, tag, text, syms)
            return read_bash(work, tag, text, syms)
        try:
            if b == "json":
                return json.loads(text)
            if b == "yaml":
                import yaml
                return yaml.safe_load(text) if text else {}
            if b == "toml":
                import tomllib                 # the standard-library reader (TOML 1.0)
                return tomllib.loads(text)
        except Exception as ex:
            return "err"
        return None
    with ThreadPoolExecutor(workers) as ex:
        observed = list(ex.map(real_read, range(len(cases))))
    for i, c in enumerate(cases):
        judge_case(ctx, c, res[i], impl[i], observed[i], info)


def judge_case(ctx, c, r, impl, observed, info):
    b = c.backend
    keys, text = impl
    sel = spec_select(c.ps, c.query, c.tags)
    ctx.count("backend." + b)
    if any(p.kind == "str" and any(ord(ch) > 127 for x in p.flat() for ch in x) for p in sel):
        ctx.count("non-ascii-string." + b)
    if c.query is not None or c.tags is not None:
        ctx.count("selection")
    nontriv = any(isinstance(p.value, list) for p in sel) or len(sel) >= 3
    ctx.case([c.src, b, c.opts, c.query, c.tags], nontriv,
             {"backend": b, "opts": c.opts, "query": c.query, "tags": c.tags, "params": [p.brief() for p in sel][:4]})
    if "ok" not in r:
        ctx.disagreement("driver", c.replay(), "driver error %s" % (r,))
        return
    m = r["ok"]
    # ---- selection: impl vs documented selection (oracle), impl vs model
    if keys is not None:
        if keys != [p.name for p in sel]:
            ctx.violation("select:%s" % ("query" if c.query else "tags"),
                          "selection query=%r tags=%r exports %s, documented selection is %s" %
                          (c.query, c.tags, keys, [p.name for p in sel]), c.replay(impl_keys=keys))
        if keys != m["selected"]:
            ctx.disagreement("select", c.replay(), "impl %s model %s" % (keys, m["selected"]))
    # ---- (i) exporter model vs real exporter: equal as strings
    if b not in DATA:
        mt = m["text"]
        it = text if keys is not None else None
        if mt != it:
            ctx.disagreement("export:" + b, c.replay(), "impl %r model %r" % (it if it is not None else text, mt))
    if keys is None:
        if m["text"] is not None or b in DATA:
            ctx.violation("%s:export-raises" % b, "export raises: %s" % text, c.replay())
        return
    if b in TYPED:
        judge_typed_case(ctx, c, m, sel, observed, info)
    elif b == "bash":
        judge_bash_case(ctx, c, m, sel, observed)
    elif b in DATA:
        judge_data_case(ctx, c, m, sel, observed)
    else:
        judge_dip_case(ctx, c, m, sel, text)


def judge_typed_case(ctx, c, m, sel, observed, info):
    b = c.backend
    ren = c.opts.get("rename", True)
    define = c.opts.get("define", [])
    if observed == "collision":
        ctx.violation("rename:collision", "two selected parameters are exported under one symbol name",
                      c.replay(names=[p.name for p in sel]))
        return
    # Lean specification vs the environment (both must describe the same expectation)
    spec = m["spec"]
    if spec is None or len(spec) != len(sel):
        if True:
            ctx.disagreement("spec:" + b, c.replay(), "Lean specification undefined for %s" % [p.name for p in sel])
    else:
        for p, s in zip(sel, spec):
            macro = s["decl"] == "macro"
            want = [int(x) if (p.kind == "bool" and macro) else x for x in p.flat()]
            got = P("", p.kind, p.bits, py_value(s["value"]), None, None).flat()
            ekind, ebits = LACKING.get((b, p.kind, p.bits), (p.kind, p.bits))
            dk = (None, None) if macro else info.get((b, s["decl"]), ("str", 0) if s["decl"].startswith("character") else (None, None))
            type_ok = macro or (dk[0] == ekind and (ekind in ("bool", "str") or dk[1] == ebits)) or \
                (b == "fortran" and p.kind == "uint")
            if s["name"] != py_rename(p.name, ren) or s["shape"] != p.shape() or s["narrow"] or not type_ok or \
                    not deep_equal(want, got):
                ctx.disagreement("spec:" + b, c.replay(), "Lean spec %s vs environment %s" % (s, p.brief()))
    # (ii) reader model vs real tool
    rd = m["read"]
    if rd is not None and len(rd) == len(sel):
        ctx.count("reader-validated." + b, len(rd))
        for p, s, o in zip(sel, rd, observed):
            if not IDENT.match(py_rename(p.name, ren)):
                continue
            pred = model_sym_canon(b, s, info)
            if not same_obs(b, pred, o):
                ctx.disagreement("reader:" + b, c.replay(param=p.brief()), "reader model %s, real tool %s" % (pred, o))
    elif rd is None:
        ctx.count("reader-not-covered." + b)
    # (iii) oracle: real tool vs environment
    for p, o in zip(sel, observed):
        if not IDENT.match(py_rename(p.name, ren)):
            ctx.count("skipped.non-identifier-name")
            continue
        reason = judge_typed(b, p, p.name in define, o)
        if reason:
            ctx.violation(classify(b, p, reason, o),
                          "%s export of %s %s%s = %r: the compiled file gives %s (%s)" %
                          (b, p.name, p.kind, p.bits or "", p.value, o, reason),
                          c.replay(param=p.brief(), observed=o, reason=reason))


def judge_bash_case(ctx, c, m, sel, observed):
    ren = c.opts.get("rename", True)
    exp_flag = c.opts.get("export", True)
    if observed == "collision":
        ctx.violation("rename:collision", "two selected parameters are exported under one symbol name",
                      c.replay(names=[p.name for p in sel]))
        return

    def expected_items(p):
        sh = p.shape()
        items = {}

        def rec(v, coord):
            if isinstance(v, list):
                for i, x in enumerate(v):
                    rec(x, coord + [i])
            else:
                items[",".join(map(str, coord)) if coord else "0"] = v
        rec(p.value, [])
        return items

    def value_ok(p, v, s):
        if p.kind == "bool":
            return s == ("0" if v else "-1")
        if p.kind in ("int", "uint"):
            return re.fullmatch(r"-?[0-9]+", s) is not None and int(s) == v
        if p.kind == "float":
            try:
                return float(s) == v
            except ValueError:
                return False
        return s == v
    spec = m["spec"]
    rd = m["read"]
    for idx, (p, o) in enumerate(zip(sel, observed)):
        name = py_rename(p.name, ren)
        if not IDENT.match(name):
            continue
        exp = expected_items(p)
        rank = len(p.shape())
        # Lean spec vs environment
        s = spec[idx]
        sitems = {(k if k else "0"): v for k, v in s["items"]}
        if s["name"] != name or set(sitems) != set(exp) or not all(value_ok(p, exp[k], sitems[k]) for k in exp):
            ctx.disagreement("spec:bash", c.replay(), "Lean spec %s vs environment %s" % (s, p.brief()))
        # reader model vs bash
        if rd is not None:
            mr = next((x for x in rd if x["name"] == name), None)
            if mr is None or o == "err":
                ctx.disagreement("reader:bash", c.replay(param=p.brief()), "reader model %s, bash %s" % (mr, o))
            else:
                mitems = {(k if k else "0"): v for k, v in mr["items"]}
                mattr = {"scalar": "", "indexed": "a", "assoc": "A"}[mr["kind"]] + ("x" if mr["exported"] else "")
                if mitems != o["items"] or sorted(mattr) != sorted(o["attr"]):
                    ctx.disagreement("reader:bash", c.replay(param=p.brief()), "reader model %s, bash %s" % (mr, o))
        # oracle
        reason = None
        if o == "err":
            reason = "unset"
        else:
            want_attr = ("a" if rank == 1 else "A" if rank > 1 else "") + ("x" if exp_flag else "")
            if set(o["items"]) != set(exp):
                reason = "shape"
            elif not all(value_ok(p, exp[k], o["items"][k]) for k in exp):
                reason = "value"
            elif sorted(o["attr"]) != sorted(want_attr):
                reason = "type"
        if reason:
            ctx.violation(classify("bash", p, reason, o),
                          "bash export of %s %s = %r: after sourcing the file bash holds %s (%s)" %
                          (p.name, p.kind, p.value, o, reason), c.replay(param=p.brief(), observed=o, reason=reason))
    if rd is not None:
        ctx.count("reader-validated.bash", len(sel))
    else:
        ctx.count("reader-not-covered.bash")


def py_value(v):
    """model value JSON -> python"""
    if isinstance(v, list):
        return [py_value(x) for x in v]
    if isinstance(v, dict):
        return float(v["f"]) if "f" in v else v["s"]
    return v


def judge_data_case(ctx, c, m, sel, observed):
    b = c.backend
    units = c.opts.get("units", True)
    exp = {}
    for p in sel:
        if p.kind in ("int", "uint", "float") and p.unit is not None and units:
            exp[p.name] = {"value": p.value, "unit": p.unit}
        else:
            exp[p.name] = p.value
    # shaping model (= Lean spec) vs environment
    shaped = {}
    for name, s in m["spec"]:
        shaped[name] = py_value(s["bare"]) if "bare" in s else {"value": py_value(s["value"]), "unit": s["unit"]}
    if not deep_equal(shaped, exp):
        ctx.disagreement("shape:" + b, c.replay(), "model %s environment %s" % (shaped, exp))
    def toml_x(p):
        # the third-party `toml` writer mangles a backslash followed by x (toml.encoder._dump_str)
        return b == "toml" and p.kind == "str" and any("\\x" in x for x in p.flat())
    if observed == "err" or not isinstance(observed, dict):
        bad = [p for p in sel if toml_x(p)]
        if bad:
            ctx.violation("toml:string-backslash-x", "toml export of %s = %r cannot be loaded" % (bad[0].name, bad[0].value),
                          c.replay(param=bad[0].brief()))
        else:
            ctx.violation("%s:loader-error" % b, "%s export cannot be loaded" % b, c.replay())
        return
    for p in sel:
        if p.name not in observed or not deep_equal(observed[p.name], exp[p.name]):
            ctx.violation("toml:string-backslash-x" if toml_x(p) else
                          "%s:non-ascii" % b if (p.kind == "str" and any(ord(ch) > 127 for x in p.flat() for ch in x)) else
                          "%s:%s%s:%s" % (b, p.kind, p.bits or "", "array" if isinstance(p.value, list) else "scalar"),
                          "%s export of %s = %r loads as %r" % (b, p.name, exp[p.name], observed.get(p.name)),
                          c.replay(param=p.brief(), observed=observed.get(p.name)))
    extra = [k for k in observed if k not in exp]
    if extra:
        ctx.violation("%s:extra-keys" % b, "%s export defines unselected keys %s" % (b, extra), c.replay())


def deep_equal(a, b):
    if isinstance(a, dict) or isinstance(b, dict):
        return isinstance(a, dict) and isinstance(b, dict) and set(a) == set(b) and all(deep_equal(a[k], b[k]) for k in a)
    if isinstance(a, list) or isinstance(b, list):
        return isinstance(a, list) and isinstance(b, list) and len(a) == len(b) and all(deep_equal(x, y) for x, y in zip(a, b))
    if isinstance(a, bool) or isinstance(b, bool):
        return isinstance(a, bool) and isinstance(b, bool) and a == b
    if isinstance(a, float) or isinstance(b, float):
        return isinstance(a, float) and isinstance(b, float) and a == b
    return type(a) == type(b) and a == b


def dip_value_same(mv, rv):
    """value as the Lean reader model returns it (floats as {"f": token}) against the value of the real re-parse"""
    if isinstance(mv, list) or isinstance(rv, list):
        return (isinstance(mv, list) and isinstance(rv, list) and len(mv) == len(rv)
                and all(dip_value_same(x, y) for x, y in zip(mv, rv)))
    if isinstance(mv, bool) or isinstance(rv, bool):
        return isinstance(mv, bool) and isinstance(rv, bool) and mv == rv
    if isinstance(mv, dict) and set(mv) != {"s"}:
        if set(mv) != {"f"} or not isinstance(rv, float):
            return False
        try:
            x = float(mv["f"])
        except Exception:
            return False
        return x == rv or math.isclose(x, rv, rel_tol=1e-9, abs_tol=0.0)
    if isinstance(mv, dict) and set(mv) == {"s"}:
        return isinstance(rv, str) and mv["s"] == rv
    return isinstance(mv, int) and isinstance(rv, int) and mv == rv


def judge_dip_reader(ctx, c, m, sel, text, r):
    """Tie of the Lean model of the DIP node parser (Model/C19Dip.lean: readDip) to the real parser: on every
    exported text whose nodes are boolean / numeric (scalars and arrays), scalar strings without '$' that do not end
    in a backslash, or arrays of strings without '$' and control characters (the fragment the reader models and
    C19_roundtrip_dip_partial / C19_roundtrip_dip_strings_partial are about) the model's reading of the text and the real re-parse must agree on
    name, kind, precision, value (hence shape) and unit of every parameter, in order.  impl != model here is a
    broken tie (disagreement), never a violation."""
    if not text or not sel or m.get("text") != text:
        return
    # outside the reader model: string texts with '$' (place-holders of DIP._determine_node), scalar string texts
    # ending in a backslash (known finding dip:string-trailing-backslash), array elements with a control character
    # (json.dumps writes a two-character escape for them; the reader model covers the \uXXXX escapes only)
    def outside(p):
        if p.kind != "str":
            return False
        if isinstance(p.value, list):
            return any("$" in x or any(ord(ch) < 32 for ch in x) for x in p.flat())
        return "$" in p.value or p.value.endswith("\\")
    if any(outside(p) for p in sel):
        return
    ctx.count("dip-reader-model")
    if any(p.kind == "str" for p in sel):
        ctx.count("dip-reader-model.with-string")
    if any(p.kind == "str" and isinstance(p.value, list) for p in sel):
        ctx.count("dip-reader-model.with-string-array")
    mr = decode_cp(m.get("read"))
    ms = decode_cp(m.get("spec"))
    real = None if r is None else r[1]

    def same(ml, rl):
        if ml is None or rl is None:
            return ml is None and rl is None
        if len(ml) != len(rl):
            return False
        for x, q in zip(ml, rl):
            if (x["name"], x["kind"], x["bits"], x["unit"] or None) != (q.name, q.kind, q.bits, q.unit or None):
                return False
            if not dip_value_same(x["value"], q.value):
                return False
        return True
    if not same(mr, real):
        ctx.disagreement("read:dip", c.replay(),
                         "reader model %r, real DIP parser %r" % (mr, [q.brief() for q in real] if real is not None else None))
    elif mr is not None and mr != ms:
        # both readers agree with each other but not with the parameters that were exported: the per-parameter
        # comparison below reports it against the real parser; here only the model side is recorded
        ctx.count("dip-reader-model.differs-from-spec")


def judge_dip_case(ctx, c, m, sel, text):
    """DIP text export re-read by the real DIP parser (trusted reader)."""
    r = parse_env(text + "\n") if text else (None, [])
    if r is None:
        # the text as a whole is rejected: re-read line by line, so that only the parameters whose own line is
        # unreadable are blamed
        back = {}
        lines = text.split("\n")
        if len(lines) == len(sel):
            for ln in lines:
                rr = parse_env(ln + "\n")
                if rr is not None:
                    back.update({q.name: q for q in rr[1]})
    else:
        back = {p.name: p for p in r[1]}
    judge_dip_reader(ctx, c, m, sel, text, r)
    for p in sel:
        if isinstance(p.value, list):
            q = back.get(p.name) if back else None
            if q is None or not deep_equal(q.value, p.value):
                ctx.violation(classify("dip", p, "value", "err"),
                              "DIP export of array %s = %r re-reads as %r" % (p.name, p.value, q.value if q else None),
                              c.replay(param=p.brief()))
            elif (q.kind, q.bits, q.unit) != (p.kind, p.bits, p.unit):
                what = "unit" if q.unit != p.unit else "type"
                ctx.violation("dip:array:%s" % what,
                              "DIP export of array %s %s%s = %r %s re-reads as %s%s with unit %s (the %s differs)" %
                              (p.name, p.kind, p.bits or "", p.value, p.unit, q.kind, q.bits or "", q.unit, what),
                              c.replay(param=p.brief(), reread=q.brief()))
            continue
        q = back.get(p.name) if back else None
        if q is None or (q.kind, q.bits, q.unit) != (p.kind, p.bits, p.unit) or not deep_equal(q.value, p.value):
            reason = "unreadable" if q is None else "value"
            ctx.violation(classify("dip", p, reason, "err"),
                          "DIP export of %s %s%s = %r %s re-reads as %s" %
                          (p.name, p.kind, p.bits or "", p.value, p.unit, q.brief() if q else None),
                          c.replay(param=p.brief(), reread=q.brief() if q else None))


# =============================================================== nodes modified before the export
UNIT_PAIRS = [("cm", "m", 100), ("mm", "cm", 10), ("m", "km", 1000), ("g", "kg", 1000), ("mm", "m", 1000)]


def gen_modified_source(rng, dip_types):
    """Definitions with units followed by re-assignments in a larger unit of the same dimension (the stored value of
    an integer node becomes a float), in the same unit, and of unit-less nodes; floats re-assigned with integers."""
    nums = [kb for kb in dip_types if kb[0] in ("int", "uint", "float") and kb[1] >= 16]
    defs, mods = [], []
    for i in range(rng.randint(1, 4)):
        kind, bits = rng.choice(nums)
        name = rng.choice(["", "", "box.", "sim."]) + rng.choice(["width", "cells", "n", "len", "mass", "k"]) + str(i)
        kw = {"int": "int", "uint": "uint", "float": "float"}[kind]
        if (kind in ("int", "uint") and bits != 32) or (kind == "float" and bits != 64):
            kw += str(bits)
        shape = rng.choice([[], [], [rng.randint(1, 3)], [rng.randint(1, 2), rng.randint(1, 3)]])
        u1, u2, fac = rng.choice(UNIT_PAIRS)
        mode = rng.choice(["other-unit", "other-unit", "same-unit", "no-unit"])

        def lit(lo, hi):
            v = rng.randint(lo, hi)
            if kind == "float" and rng.random() < 0.5:
                return repr(v + rng.choice([0.0, 0.5, 0.25]))
            return str(v)
        dims = "[%s]" % ",".join(map(str, shape)) if shape else ""
        txt = lambda lo, hi: json.dumps(build_array(shape, lambda: "@"), separators=(",", ":")).replace('"@"', "%s") % \
            tuple(lit(lo, hi) for _ in range(int(np.prod(shape)) if shape else 1)) if shape else lit(lo, hi)
        unit = "" if mode == "no-unit" else " " + u1
        defs.append("%s %s%s = %s%s" % (name, kw, dims, txt(1, 9), unit))
        if mode == "other-unit":
            mods.append("%s = %s %s" % (name, txt(1, 3), u2))
        elif mode == "same-unit":
            mods.append("%s = %s %s" % (name, txt(1, 300), u1))
        else:
            mods.append("%s = %s" % (name, txt(1, 300)))
    return "\n".join(defs + mods) + "\n"


# =============================================================== save() to one path, again after the values changed
def same_length_value(rng, kind, bits, v):
    """another value of the same kind whose printed text has the same length (128 -> 129, 0.25 -> 0.75, 'ab' -> 'ac')"""
    if isinstance(v, list):
        return [same_length_value(rng, kind, bits, x) for x in v]
    if kind in ("int", "uint"):
        lo, hi = int_range(kind, bits)
        for d in (1, 9, 3, 7):
            a = abs(v)
            w = (a - a % 10 + (a % 10 + d) % 10) * (-1 if v < 0 else 1)
            if lo <= w <= hi and len(str(w)) == len(str(v)) and w != v:
                return w
        return v
    if kind == "float":
        t = repr(v)
        m = t.split("e")[0]
        for i in range(len(m) - 1, -1, -1):
            if m[i].isdigit():
                for d in "5731":
                    if d != m[i]:
                        t2 = m[:i] + d + m[i + 1:] + t[len(m):]
                        try:
                            w = float(t2)
                        except ValueError:
                            continue
                        if repr(w) == t2 and w != v and well_typed("float", w) and (bits != 32 or abs(w) < 1e30):
                            return w
                break
        return v
    if kind == "str":
        if v and v[-1].isalnum() and ord(v[-1]) < 128:
            c = "b" if v[-1] != "b" else "c"
            return v[:-1] + c
        return v
    return v


def run_save(ctx, src1, src2, backend, opts, workdir, tag):
    """export + save, then export the changed environment + save to the SAME path: the file must hold the new text"""
    r1, r2 = parse_env(src1), parse_env(src2)
    if r1 is None or r2 is None:
        return
    cls = export_cls(backend)
    kw = {"rename": opts.get("rename", True)} if backend in ("c", "cpp", "fortran", "rust", "bash") else {}
    path = os.path.join(workdir, "save_%s.txt" % tag)
    if os.path.exists(path):
        os.remove(path)
    texts = []
    try:
        for env in (r1[0], r2[0]):
            with cls(env, **kw) as e:
                texts.append(e.parse(**parse_kwargs(opts)))
                e.save(path)                              # mode 'w'
            with open(path, "rb") as f:
                on_disk = f.read()
            if len(texts) == 2:
                break
            first_ok = on_disk == texts[0].encode("utf-8")
    except Exception:
        return                                            # an export that raises is judged by the other streams
    ctx.count("save." + backend)
    if len(texts[0].encode("utf-8")) == len(texts[1].encode("utf-8")) and texts[0] != texts[1]:
        ctx.count("save-equal-length." + backend)
    if not first_ok:
        ctx.violation("save:%s:first-write" % backend, "%s export saved to a new file: the file does not hold the exported text" % backend,
                      {"source": src1, "source2": src2, "backend": backend, "opts": opts})
    elif on_disk != texts[1].encode("utf-8"):
        ctx.violation("save:%s:stale-file" % backend,
                      "%s export saved again to the same path after the values changed (%d and %d bytes): the file still holds %r, "
                      "the exported text is %r" % (backend, len(texts[0].encode("utf-8")), len(texts[1].encode("utf-8")),
                                                 on_disk.decode("utf-8", "replace")[:200], texts[1][:200]),
                      {"source": src1, "source2": src2, "backend": backend, "opts": opts})


# =============================================================== histories on ONE exporter object
def export_cls(backend):
    from scinumtools.dip import config as cfg
    return {"c": cfg.ExportConfigC, "cpp": cfg.ExportConfigCPP, "fortran": cfg.ExportConfigFortran,
            "rust": cfg.ExportConfigRust, "bash": cfg.ExportConfigBash, "json": cfg.ExportConfigJSON,
            "yaml": cfg.ExportConfigYAML, "toml": cfg.ExportConfigTOML, "dip": cfg.ExportConfig}[backend]


PARSE_KEYS = ("guard", "define", "const", "module", "export", "units")


def parse_kwargs(opts):
    return {k: opts[k] for k in PARSE_KEYS if k in opts}


def other_options(rng, backend, opts, sel):
    """options that differ from `opts` in what the back-end's parse() takes"""
    o = dict(gen_options(rng, backend, sel))
    o["rename"] = opts.get("rename", True)                    # renaming belongs to the object, not to parse()
    if backend in DATA:
        o["units"] = not opts.get("units", True)
    if backend == "bash":
        o["export"] = not opts.get("export", True)
    if backend in ("c", "cpp"):
        o["guard"] = "OTHER_GUARD_H" if opts.get("guard") != "OTHER_GUARD_H" else "CONFIG_H"
    if backend == "fortran":
        o["module"] = "other_mod" if opts.get("module") != "other_mod" else "ConfigurationModule"
    return o


def gen_history(rng, ps, backend):
    """parse, parse with other options, select, parse with the same and with other options, re-select, parse"""
    o1 = gen_options(rng, backend, ps)
    o1.setdefault("rename", True)
    steps = [["parse", o1], ["parse", other_options(rng, backend, o1, ps)]]
    cur = ps
    for k in range(2):
        while True:
            q, t = gen_selection(rng, ps)
            if k == 1 and rng.random() < 0.3:
                q, t = None, None                          # back to everything
            if (q, t) != (None, None) or k == 1:
                break
        steps.append(["select", q, t])
        cur = spec_select(ps, q, t)
        same = dict(steps[-2][1]) if steps[-2][0] == "parse" else dict(o1)
        steps.append(["parse", same])                      # the same options as before the selection
        steps.append(["parse", other_options(rng, backend, same, cur)])
    return steps


def c_without_include(text):
    return text.replace("#include <stdbool.h>\n\n", "", 1) if isinstance(text, str) else text


def run_history(ctx, src, env, ps, backend, steps):
    """One exporter object lives through `steps`; every parse must give what a fresh exporter gives for the
    current selection and the current options (whose meaning the other streams check)."""
    cls = export_cls(backend)
    rename = next((s[1].get("rename", True) for s in steps if s[0] == "parse"), True)
    kw = {"rename": rename} if backend in ("c", "cpp", "fortran", "rust", "bash") else {}
    try:
        obj = cls(env, **kw)
    except Exception:
        return
    cur = (None, None)
    selected_once = False
    prev_fresh = None
    for i, st in enumerate(steps):
        if st[0] == "select":
            cur = (st[1], st[2])
            selected_once = True
            try:
                obj.select(query=cur[0], tags=cur[1])
            except Exception:
                return                                      # the selection itself is refused: nothing to compare
            continue
        pk = parse_kwargs(st[1])
        try:
            got = obj.parse(**pk)
        except Exception as ex:
            got = ("raised", type(ex).__name__)
        try:
            f = cls(env, **kw)
            if selected_once:
                f.select(query=cur[0], tags=cur[1])
            want = f.parse(**pk)
        except Exception as ex:
            want = ("raised", type(ex).__name__)
        ctx.count("history-parse." + backend)
        ok = got == want
        if not ok and backend == "c" and isinstance(got, str) and isinstance(want, str):
            # an include line kept from an earlier export defines nothing: only the declarations are compared
            ok = c_without_include(got) == c_without_include(want) and ("#include" not in want or "#include" in got)
        if not ok:
            sel_names = [p.name for p in spec_select(ps, *cur)]
            stale = prev_fresh is not None and got == prev_fresh
            sig = "history:%s:%s" % (backend, "stale-selection" if stale else "state")
            ctx.violation(sig, "%s exporter object, step %d of %s: parse(%s) with selection query=%r tags=%r (documented "
                          "selection %s) writes %r, a fresh exporter writes %r" %
                          (backend, i, [x[0] for x in steps], pk, cur[0], cur[1], sel_names, got if not isinstance(got, str) else got[:300],
                           want if not isinstance(want, str) else want[:300]),
                          {"source": src, "backend": backend, "steps": steps, "failing_step": i})
            return
        prev_fresh = want


def correspond(ctx: Ctx):
    np.seterr(all="ignore")
    thorough = ctx.tier == "thorough"
    rng = ctx.rng
    dip_types = probe_dip_types()
    # C19_NO_CORPUS=1 (development only): judge the random generators alone, e.g. against planted changes
    cases = [] if os.environ.get("C19_NO_CORPUS") else corpus_cases(dip_types)
    n_env = 600 if thorough else 40
    envs = []
    for k in range(n_env):
        special = rng.random() < 0.25
        specs = gen_specs(rng, dip_types, rng.randint(1, 7), special=special)
        src = dip_source(specs)
        r = parse_env(src)
        if r is None:
            ctx.count("skipped.env-rejected-by-parser")
            continue
        ctx.count("environments")
        envs.append((src, r[0], r[1]))
    for src, env, ps in envs:
        for b in BACKENDS:
            reps = 2 if (thorough and b in ("c", "cpp", "bash")) else 1
            for _ in range(reps):
                q, t = gen_selection(rng, ps)
                sel = spec_select(ps, q, t)
                cases.append(Case(src, env, ps, b, gen_options(rng, b, sel), q, t))
    for i in range(0, len(cases), 400):
        run_cases(ctx, cases[i:i + 400])
    # histories: one exporter object per (environment, back-end) used repeatedly
    ascii_reports(ctx)
    hist_envs = envs if not thorough else envs[:200]
    corpus_envs = []
    seen_src = set()
    for c in cases:
        if c.origin.startswith("corpus:") and c.src not in seen_src:
            seen_src.add(c.src)
            corpus_envs.append((c.src, c.env, c.ps))
    for src, env, ps in corpus_envs + hist_envs:
        for b in BACKENDS:
            steps = gen_history(rng, ps, b)
            ctx.count("history." + b)
            ctx.case([src, b, "history", steps], True, None)
            run_history(ctx, src, env, ps, b, steps)
    # nodes that were re-assigned (in another unit) before the export: DIP text back-end
    mod_cases = []
    path = core.VERIF / "corpus" / "C19" / "modified.json"
    mod_sources = json.loads(path.read_text(encoding="utf-8")) if path.exists() else []
    mod_sources += [gen_modified_source(rng, dip_types) for _ in range(300 if thorough else 40)]
    for src in mod_sources:
        r = parse_env(src, coerce=True)
        if r is None:
            ctx.count("skipped.modified-env-rejected")
            continue
        ctx.count("modified-environments")
        mod_cases.append(Case(src, r[0], r[1], "dip", {}, None, None, origin="modified"))
    for i in range(0, len(mod_cases), 400):
        run_cases(ctx, mod_cases[i:i + 400])
    # save() twice to one path, the second time after value changes of equal printed length
    work = tmpdir()
    for k in range(120 if thorough else 25):
        specs = gen_specs(rng, dip_types, rng.randint(1, 5), special=False)
        specs2 = [(n, kd, b, same_length_value(rng, kd, b, v), u, t) for n, kd, b, v, u, t in specs]
        src1, src2 = dip_source(specs), dip_source(specs2)
        r = parse_env(src1)
        if r is None:
            continue
        for b in BACKENDS:
            o = gen_options(rng, b, r[1])
            ctx.case([src1, src2, b, "save", o], True, None)
            run_save(ctx, src1, src2, b, o, work, "%d_%s" % (k, b))
    ctx.extra["compilers"] = "gcc, g++, gfortran -ffree-line-length-none, rustc --edition 2021, bash"


def replay(ctx, payload):
    """Re-run one recorded case: ./check C19 --replay replays/C19-<seed>-<n>.json"""
    np.seterr(all="ignore")
    r = payload.get("replay", payload)
    if "source" not in r:
        print(json.dumps(payload, indent=1)[:4000])
        return 2
    pe = parse_env(r["source"]) or parse_env(r["source"], coerce=True)
    if pe is None:
        print("replay: the DIP source is rejected by the parser")
        return 2
    if "source2" in r:
        ascii_reports(ctx)
        run_save(ctx, r["source"], r["source2"], r["backend"], r.get("opts") or {}, tmpdir(), "replay")
        for v in ctx.violations:
            print("VIOLATION [%s] %s" % (v["signature"], v["what"]))
        if not ctx.violations:
            print("replay: the file holds the exported text after both saves")
        return 1 if ctx.violations else 0
    if "steps" in r:
        ascii_reports(ctx)
        run_history(ctx, r["source"], pe[0], pe[1], r["backend"], r["steps"])
        for v in ctx.violations:
            print("VIOLATION [%s] %s" % (v["signature"], v["what"]))
        if not ctx.violations:
            print("replay: every parse of the history equals the export of a fresh object")
        return 1 if ctx.violations else 0
    with core.lean_lock():
        ok, out, _ = core.lake_build(["drv_c19"])
    if not ok:
        print(out[-2000:])
        return 2
    case = Case(r["source"], pe[0], pe[1], r["backend"], r.get("opts") or {}, r.get("query"), r.get("tags"), origin="replay")
    try:
        run_cases(ctx, [case])
    except (ToolFailure, subprocess.TimeoutExpired) as e:
        print("TOOL-FAILURE: %s" % e)
        return 2
    known = {f["signature"] for f in core.load_known().get("findings", []) if f["property"] == "C19"}
    rc = 0
    for v in ctx.violations:
        tag = "KNOWN-FINDING" if v["signature"] in known else "VIOLATION"
        print("%s [%s] %s" % (tag, v["signature"], v["what"]))
        if tag == "VIOLATION":
            rc = 1
    for d in ctx.disagreements:
        print("impl!=model [%s] %s" % (d["stream"], d["detail"][:400]))
        rc = 1
    if rc == 0:
        print("replay: property holds on this input (%d evaluations)" % ctx.evaluations)
    return rc
