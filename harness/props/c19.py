"""C19 — configuration exports: translator (type tables), correspondence exporter-model vs real
exporter (text equality), reader-model vs real tools (gcc, g++, gfortran, rustc, bash, json/yaml/toml
loaders, DIP re-parse), and the oracle real tool vs environment."""
import atexit
import json
import os
import shutil
import subprocess
import tempfile
from concurrent.futures import ThreadPoolExecutor

from harness import core
from harness.core import Ctx

LEAN = core.LEAN
GEN_FILE = LEAN / "SciVerif" / "Generated" / "C19Tables.lean"

RULE = ""
ASSUMPTIONS = []
EXPLANATION = ""

_TMP = None


def tmpdir():
    global _TMP
    if _TMP is None:
        _TMP = tempfile.mkdtemp(prefix="c19_")
        atexit.register(shutil.rmtree, _TMP, ignore_errors=True)
    return _TMP


def sh(cmd, cwd=None, timeout=120, input=None):
    p = subprocess.run(cmd, cwd=cwd, stdout=subprocess.PIPE, stderr=subprocess.PIPE, text=True,
                       timeout=timeout, input=input, errors="replace")
    return p.returncode, p.stdout, p.stderr


# =============================================================== translator
KINDS = ["bool", "int", "uint", "float", "str"]
GRID = [("bool", 0), ("str", 0)] + [(k, b) for k in ("int", "uint") for b in (8, 16, 32, 64, 128)] + \
       [("float", b) for b in (16, 32, 64, 80, 96, 128)]


def mk_param(kind, bits, value=None):
    from scinumtools.dip.datatypes import StringType, BooleanType, FloatType, IntegerType
    if kind == "bool":
        return BooleanType(True if value is None else value)
    if kind == "str":
        return StringType("abc" if value is None else value)
    if kind in ("int", "uint"):
        return IntegerType(1 if value is None else value, precision=bits, unsigned=(kind == "uint"))
    return FloatType(1.0 if value is None else value, precision=bits)


def probe_types():
    """`_parse_dtype` of every back-end over the whole (kind, width, signedness) grid."""
    from scinumtools.dip.config import (ExportConfig, ExportConfigC, ExportConfigCPP, ExportConfigFortran,
                                        ExportConfigRust)
    rows = []
    for backend, cls in (("c", ExportConfigC), ("cpp", ExportConfigCPP), ("fortran", ExportConfigFortran),
                         ("rust", ExportConfigRust), ("dip", ExportConfig)):
        for kind, bits in GRID:
            obj = object.__new__(cls)
            obj.includes = []
            obj.rename = True
            p = mk_param(kind, bits)
            try:
                if backend == "fortran":
                    t = obj._parse_dtype(p, '"abc"' if kind == "str" else "1")
                elif backend == "rust":
                    t = obj._parse_dtype(p, p.value)
                elif backend == "dip":
                    obj.data = {"x": p}
                    line = obj.parse()
                    t = line.split(" ")[1]
                else:
                    t = obj._parse_dtype(p)
                if not isinstance(t, str):
                    t = None
            except Exception:
                t = None
            rows.append((backend, kind, bits, t))
    return rows


def probe_dip_types():
    """Which type keywords the real DIP parser accepts, and the (kind, precision) they produce."""
    from scinumtools.dip import DIP
    from scinumtools.dip.settings import Format
    from scinumtools.dip.datatypes import StringType, BooleanType, FloatType, IntegerType
    out = []
    cands = ["bool", "str"] + [u + "int" + b for u in ("", "u") for b in ("", "8", "16", "32", "64", "128")] + \
            ["float" + b for b in ("", "16", "32", "64", "80", "96", "128")]
    for kw in cands:
        val = {"bool": "true", "str": "abc"}.get(kw, "1")
        try:
            with DIP() as dip:
                dip.add_string("x %s = %s" % (kw, val))
                env = dip.parse()
            p = env.data(Format.TYPE)["x"]
        except Exception:
            continue
        if isinstance(p, BooleanType):
            t = ("bool", 0)
        elif isinstance(p, StringType):
            t = ("str", 0)
        elif isinstance(p, IntegerType):
            t = ("uint" if p.unsigned else "int", int(p.precision))
        elif isinstance(p, FloatType):
            t = ("float", int(p.precision))
        else:
            continue
        if t not in out:
            out.append(t)
    return out


C_PROBE = r'''
#include <stdio.h>
%(inc)s
#define P(T, name) do { T x = (T)0.5; T m = (T)-1; \
  printf("%%s|%%d|%%d|%%g\n", name, (int)sizeof(T)*8, (int)(m < 0), (double)x); } while (0)
int main() {
%(body)s
  return 0;
}
'''


def measure_targets(rows):
    """(backend, target) -> (class kind, bits): what the real compilers say the target types are."""
    d = tmpdir()
    info = {}
    jobs = []
    for backend, comp, ext, inc in (("c", "gcc", "c", "#include <stdbool.h>"), ("cpp", "g++", "cpp", "")):
        ts = sorted({t for b, k, n, t in rows if b == backend and t})
        body = "\n".join('  P(%s, "%s");' % (t, t) for t in ts if t != "char*")
        src = os.path.join(d, "probe_%s.%s" % (backend, ext))
        open(src, "w").write(C_PROBE % {"inc": inc, "body": body})
        jobs.append((backend, [comp, "-w", "-o", src + ".x", src], src + ".x"))
        if "char*" in ts:
            info[(backend, "char*")] = ("str", 0)
    # Fortran
    ts = sorted({t for b, k, n, t in rows if b == "fortran" and t and not t.startswith("character")})
    lines = ["program p"]
    for i, t in enumerate(ts):
        lines.append("  %s :: v%d" % (t, i))
    for i, t in enumerate(ts):
        cls = "logical" if t.startswith("logical") else ("real" if t.startswith("real") else "integer")
        lines.append("  print '(A,A,I0,A,A)', '%s', '|', storage_size(v%d), '|', '%s'" % (t, i, cls))
    lines.append("end program")
    src = os.path.join(d, "probe_f.f90")
    open(src, "w").write("\n".join(lines) + "\n")
    jobs.append(("fortran", ["gfortran", "-w", "-o", src + ".x", src], src + ".x"))
    # Rust
    ts = sorted({t for b, k, n, t in rows if b == "rust" and t})
    lines = ["fn main() {"]
    for t in ts:
        if t == "&str":
            continue
        if t == "bool":
            lines.append('  println!("bool|{}|bool", std::mem::size_of::<bool>()*8);')
        elif t.startswith("f"):
            lines.append('  println!("%s|{}|float", std::mem::size_of::<%s>()*8);' % (t, t))
        else:
            lines.append('  println!("%s|{}|{}", std::mem::size_of::<%s>()*8, if <%s>::MIN < 0 as %s {"int"} else {"uint"});'
                         % (t, t, t, t))
    lines.append("}")
    src = os.path.join(d, "probe_r.rs")
    open(src, "w").write("\n".join(lines) + "\n")
    jobs.append(("rust", ["rustc", "-A", "warnings", "-o", src + ".x", src], src + ".x"))
    if "&str" in ts:
        info[("rust", "&str")] = ("str", 0)

    def runjob(j):
        backend, cmd, exe = j
        rc, out, err = sh(cmd)
        if rc != 0:
            raise RuntimeError("type probe does not compile for %s: %s" % (backend, err[-800:]))
        rc, out, err = sh([exe])
        return backend, out
    with ThreadPoolExecutor(4) as ex:
        for backend, out in ex.map(runjob, jobs):
            for ln in out.splitlines():
                f = [x.strip() for x in ln.split("|")]
                if backend in ("c", "cpp"):
                    name, bits, signed, half = f[0], int(f[1]), int(f[2]), float(f[3])
                    if half == 0.5:
                        info[(backend, name)] = ("float", bits)
                    elif half == 1.0:
                        info[(backend, name)] = ("bool", 0)
                    else:
                        info[(backend, name)] = ("int" if signed else "uint", bits)
                elif backend == "fortran":
                    name, bits, cls = f[0], int(f[1]), f[2]
                    info[(backend, name)] = {"logical": ("bool", 0), "real": ("float", bits),
                                             "integer": ("int", bits)}[cls]
                else:
                    name, bits, cls = f[0], int(f[1]), f[2]
                    info[(backend, name)] = (cls, 0 if cls == "bool" else bits)
    return info


def lean_str(s):
    return 'cs!"%s"' % s.replace("\\", "\\\\").replace('"', '\\"')


def render_tables(rows, info, dip_types):
    out = ["import SciVerif.Model.C19Base",
           "/-! GENERATED by harness/props/c19.py (gen_tables) from the live `_parse_dtype` methods, the live DIP",
           "    parser and the installed compilers.  Do not edit. -/",
           "namespace SciVerif.C19.Gen", "open SciVerif.C19", "",
           "/-- (backend, kind, bits, target type or none when `_parse_dtype` leaves it undefined) -/",
           "def typeRows : List (Str × Kind × Nat × Option Str) := ["]
    out.append(",\n".join("  (%s, Kind.%s, %d, %s)" % (lean_str(b), k, n, ("some (%s)" % lean_str(t)) if t else "none")
                          for b, k, n, t in rows))
    out += ["]", "", "/-- (backend, target type, class, bits) as measured with gcc / g++ / gfortran / rustc -/",
            "def targetInfo : List (Str × Str × Kind × Nat) := ["]
    out.append(",\n".join("  (%s, %s, Kind.%s, %d)" % (lean_str(b), lean_str(t), k, n)
                          for (b, t), (k, n) in sorted(info.items())))
    out += ["]", "", "/-- (kind, bits) of every type keyword the DIP parser accepts -/",
            "def dipTypes : List (Kind × Nat) := ["]
    out.append(",\n".join("  (Kind.%s, %d)" % (k, n) for k, n in dip_types))
    out += ["]", "", "end SciVerif.C19.Gen", ""]
    return "\n".join(out)


def gen_tables(ctx):
    rows = probe_types()
    info = measure_targets(rows)
    dip_types = probe_dip_types()
    ctx.extra["type_rows"] = len(rows)
    changed = []
    if core.write_if_changed(GEN_FILE, render_tables(rows, info, dip_types)):
        changed.append(str(GEN_FILE.relative_to(LEAN)))
    return changed
