"""Shared machinery for all property checks (see DESIGN.md section 5).

A check run = regenerate tables -> build model/driver -> build proofs -> audit axioms
-> correspondence (impl vs model) + oracle (impl vs spec) -> decide -> evidence.
Exit codes: 0 property held, 1 VIOLATION (line printed), 2 tool failure.
"""
import fcntl
import json
import os
import random
import re
import subprocess
import sys
import time
from contextlib import contextmanager
from pathlib import Path

VERIF = Path(__file__).resolve().parent.parent
REPO = Path(os.environ.get("VERIF_REPO", "/repo"))
LEAN = Path(os.environ.get("VERIF_LEAN_DIR", str(VERIF / "lean")))
ALLOWED_AXIOMS = {"propext", "Classical.choice", "Quot.sound"}
FORBIDDEN = re.compile(
    r"\bsorry\b|\badmit\b|^\s*axiom\s|native_decide|bv_decide|implemented_by|\bunsafe\s|maxHeartbeats\s+0\b"
)

TRUSTED_BASE = [
    "Lean 4.33 kernel (lake build; thorough tier re-checks with leanchecker)",
    "axioms allowed: propext, Classical.choice, Quot.sound (audited with #print axioms on every property theorem)",
    "no sorry/admit/native_decide/bv_decide/own axioms (source scan on every run)",
    "translator harness/gen_tables*.py (checked by dump round-trip) and correspondence harness harness/props/*.py",
    "CPython float arithmetic, re, dict order, numpy primitives are modelled (see DESIGN.md section 6)",
]


def use_repo():
    """Put the *working tree* of the repository first on sys.path."""
    src = str(REPO / "src")
    if src in sys.path:
        sys.path.remove(src)
    sys.path.insert(0, src)
    os.environ.setdefault("VRTULKA23_SCINUMTOOLS_VERIF", "1")
    # drop modules imported from elsewhere (editable install points to /repo/src anyway)
    for k in [k for k in sys.modules if k == "scinumtools" or k.startswith("scinumtools.")]:
        del sys.modules[k]


@contextmanager
def lean_lock():
    LEAN.mkdir(exist_ok=True)
    with open(LEAN / ".lock", "w") as f:
        fcntl.flock(f, fcntl.LOCK_EX)
        try:
            yield
        finally:
            fcntl.flock(f, fcntl.LOCK_UN)


def run(cmd, cwd=None, timeout=3600, input=None):
    p = subprocess.run(cmd, cwd=cwd, stdout=subprocess.PIPE, stderr=subprocess.STDOUT,
                       text=True, timeout=timeout, input=input)
    return p.returncode, p.stdout


def write_if_changed(path: Path, content: str) -> bool:
    path.parent.mkdir(parents=True, exist_ok=True)
    if path.exists() and path.read_text() == content:
        return False
    tmp = path.with_suffix(path.suffix + ".tmp%d" % os.getpid())
    tmp.write_text(content)
    os.replace(tmp, path)
    return True


DECL_RE = re.compile(r"^\s*(?:private\s+|protected\s+|@\[[^\]]*\]\s*)*(theorem|lemma|def|example|instance|abbrev)\s+([^\s:({\[]+)?")


def decl_at(file: Path, line: int) -> str:
    """Name of the declaration enclosing `line` (1-based) of a Lean file."""
    try:
        lines = file.read_text().splitlines()
    except OSError:
        return "?"
    for i in range(min(line, len(lines)) - 1, -1, -1):
        m = DECL_RE.match(lines[i])
        if m:
            return m.group(2) or ("example@%d" % (i + 1))
    return "?"


def lake_build(targets, timeout=3600):
    """Returns (ok, output, failing_decls)."""
    rc, out = run(["lake", "build"] + list(targets), cwd=LEAN, timeout=timeout)
    failing = []
    if rc != 0:
        for m in re.finditer(r"error: ([^\s:]+\.lean):(\d+):(\d+)", out):
            f = LEAN / m.group(1) if not m.group(1).startswith("/") else Path(m.group(1))
            d = "%s:%s" % (Path(m.group(1)).stem, decl_at(f, int(m.group(2))))
            if d not in failing:
                failing.append(d)
        if not failing:
            failing.append("build:" + ",".join(targets))
    return rc == 0, out, failing


def theorem_names(lean_file: Path):
    """(namespace-qualified) names of all `theorem`s of a Props file."""
    names = []
    ns = []
    for ln in lean_file.read_text().splitlines():
        m = re.match(r"^namespace\s+(\S+)", ln)
        if m:
            ns.append(m.group(1))
            continue
        m = re.match(r"^end\s+(\S+)", ln)
        if m and ns and ns[-1] == m.group(1):
            ns.pop()
            continue
        m = re.match(r"^\s*(?:private\s+|protected\s+)?theorem\s+([^\s:({\[]+)", ln)
        if m:
            names.append(".".join(ns + [m.group(1)]))
    return names


def strip_comments(src: str) -> str:
    # remove block comments (nested) and line comments
    out = []
    i, depth = 0, 0
    n = len(src)
    while i < n:
        if src.startswith("/-", i):
            depth += 1
            i += 2
        elif depth and src.startswith("-/", i):
            depth -= 1
            i += 2
        elif depth:
            if src[i] == "\n":
                out.append("\n")
            i += 1
        elif src.startswith("--", i):
            while i < n and src[i] != "\n":
                i += 1
        else:
            out.append(src[i])
            i += 1
    return "".join(out)


def import_closure(roots):
    """Files of this workspace reachable through `import` lines from the given modules."""
    seen, todo, files = set(), list(roots), []
    while todo:
        m = todo.pop()
        if m in seen:
            continue
        seen.add(m)
        f = LEAN / (m.replace(".", "/") + ".lean")
        if not f.exists():
            continue
        files.append(f)
        for ln in f.read_text().splitlines():
            mm = re.match(r"^\s*(?:public\s+)?import\s+(?:all\s+)?([A-Za-z0-9_.]+)", ln)
            if mm and (mm.group(1).startswith("SciVerif.") or mm.group(1).startswith("Drivers.")):
                todo.append(mm.group(1))
    return files


def source_scan(roots):
    """Forbidden constructs in the import closure of this property's proofs and driver."""
    hits = []
    for f in import_closure(roots):
        for n, ln in enumerate(strip_comments(f.read_text()).splitlines(), 1):
            if FORBIDDEN.search(ln):
                hits.append("%s:%d: %s" % (f.relative_to(LEAN), n, ln.strip()))
    return hits


def audit_axioms(module: str, names, extra_modules=()):
    """#print axioms for every theorem; returns {name: [axioms]} (None if unknown)."""
    src = "".join("import %s\n" % m for m in [module] + list(extra_modules)) + \
        "".join("#print axioms %s\n" % n for n in names)
    tmp = LEAN / (".audit_%s_%d.lean" % (module.replace(".", "_"), os.getpid()))
    tmp.write_text(src)
    try:
        rc, out = run(["lake", "env", "lean", str(tmp)], cwd=LEAN, timeout=1800)
    finally:
        tmp.unlink(missing_ok=True)
    res = {n: None for n in names}
    text = out.replace("\n  ", " ").replace("\n ", " ")
    for m in re.finditer(r"'([^']+)' depends on axioms: \[([^\]]*)\]", text):
        res[m.group(1)] = [a.strip() for a in m.group(2).split(",") if a.strip()]
    for m in re.finditer(r"'([^']+)' does not depend on any axioms", text):
        res[m.group(1)] = []
    return res, out


class Driver:
    """Line protocol to the compiled Lean model driver (batch mode)."""

    def __init__(self, prop):
        self.prop = prop
        self.exe = LEAN / ".lake" / "build" / "bin" / ("drv_%s" % prop.lower())

    def ask_many(self, reqs, timeout=1800):
        if not reqs:
            return []
        data = "".join(json.dumps(r, separators=(",", ":")) + "\n" for r in reqs)
        p = subprocess.run([str(self.exe)], input=data, stdout=subprocess.PIPE,
                           stderr=subprocess.PIPE, text=True, timeout=timeout)
        lines = p.stdout.splitlines()
        if p.returncode != 0 or len(lines) != len(reqs):
            raise RuntimeError("driver failed rc=%s got %d/%d lines: %s" %
                               (p.returncode, len(lines), len(reqs), p.stderr[-2000:]))
        return [json.loads(l) for l in lines]

    def ask(self, req):
        return self.ask_many([req])[0]


class Ctx:
    def __init__(self, prop, tier, seed):
        self.prop = prop
        self.tier = tier
        self.seed = seed
        self.rng = random.Random(seed * 1000003 + sum(map(ord, prop)))
        self.t0 = time.time()
        self.evaluations = 0
        self.nontrivial = set()
        self.samples = []
        self.dist = {}
        self.violations = []      # impl != spec on in-domain input (the property fails on real code)
        self.disagreements = []   # impl != model (the tie broke)
        self.broken = []          # proof obligations / translator steps that no longer check
        self.known_hits = []
        self.notes = []
        self.obligations = []
        self.discharged = []
        self.extra = {}
        self.driver = Driver(prop)

    # -- bookkeeping ------------------------------------------------------
    def count(self, key, n=1):
        self.dist[key] = self.dist.get(key, 0) + n

    def case(self, canon, nontrivial=False, sample=None):
        self.evaluations += 1
        if nontrivial:
            self.nontrivial.add(canon if isinstance(canon, str) else json.dumps(canon, sort_keys=True, default=str))
        if sample is not None and len(self.samples) < 8:
            self.samples.append(sample)

    def violation(self, signature, what, replay):
        """impl != spec: the property fails on the real code for `replay`."""
        self.violations.append({"signature": signature, "what": what, "replay": replay})

    def disagreement(self, stream, replay, detail=""):
        self.disagreements.append({"stream": stream, "replay": replay, "detail": detail})


def load_known():
    p = VERIF / "known_findings.json"
    if not p.exists():
        return {"findings": [], "fixed": []}
    return json.loads(p.read_text())


def write_replay(ctx, n, payload):
    d = VERIF / "replays"
    d.mkdir(exist_ok=True)
    p = d / ("%s-%d-%d.json" % (ctx.prop, ctx.seed, n))
    p.write_text(json.dumps(payload, indent=1, default=str))
    return p


def write_evidence(ctx, nviol, checker_cmd, assumptions, rule, explanation=""):
    ev = {
        "property_id": ctx.prop,
        "tier": ctx.tier,
        "seed": ctx.seed,
        "level": "proof",
        "coverage": {
            "obligations": len(ctx.obligations),
            "discharged": len(ctx.discharged),
            "checker_cmd": checker_cmd,
            "trusted_base": TRUSTED_BASE,
            "obligation_names": ctx.obligations,
            "not_discharged": [o for o in ctx.obligations if o not in ctx.discharged],
            "evaluations": ctx.evaluations,
            "distinct_nontrivial": len(ctx.nontrivial),
            "rule": rule,
            "samples": ctx.samples[:8],
            "traces_validated_against_impl": ctx.evaluations,
            "input_distribution": ctx.dist,
            "disagreements_impl_vs_model": len(ctx.disagreements),
            "known_findings_hit": sorted(set(ctx.known_hits)),
            "explanation": explanation,
            **ctx.extra,
        },
        "assumptions": assumptions,
        "wall_s": round(time.time() - ctx.t0, 2),
        "violations": nviol,
    }
    d = VERIF / "evidence"
    if os.environ.get("VERIF_NO_EVIDENCE"):   # mutant runs against scratch worktrees
        d = VERIF / "replays" / "mutant-evidence"
    d.mkdir(parents=True, exist_ok=True)
    (d / ("%s.json" % ctx.prop)).write_text(json.dumps(ev, indent=1, default=str) + "\n")


def main_check(prop, mod):
    """Entry point used by ./check."""
    import argparse
    ap = argparse.ArgumentParser()
    ap.add_argument("--tier", default=os.environ.get("VERIF_TIER", "quick"))
    ap.add_argument("--replay", default=None)
    args = ap.parse_args(sys.argv[2:])
    tier = args.tier if args.tier in ("quick", "thorough") else "quick"
    try:
        seed = int(os.environ.get("VERIF_SEED", "0"))
    except ValueError:
        seed = 0
    ctx = Ctx(prop, tier, seed)
    use_repo()
    if args.replay:
        payload = json.loads(Path(args.replay).read_text())
        if hasattr(mod, "replay"):
            return mod.replay(ctx, payload)
        print(json.dumps(payload, indent=1)[:4000])
        print("replay: re-running the full check (this property has no single-input replayer)")
    try:
        return _check(ctx, mod)
    except subprocess.TimeoutExpired as e:
        print("TOOL-FAILURE: timeout %s" % e)
        return 2
    except Exception:
        import traceback
        traceback.print_exc()
        print("TOOL-FAILURE: harness exception")
        return 2


def _check(ctx, mod):
    prop = ctx.prop
    props_module = "SciVerif.Props.%s" % prop
    props_file = LEAN / "SciVerif" / "Props" / ("%s.lean" % prop)
    known = load_known()
    kf = [f for f in known.get("findings", []) if f["property"] == prop]

    with lean_lock():
        # 1. translator
        if hasattr(mod, "gen_tables"):
            try:
                changed = mod.gen_tables(ctx)
                if changed:
                    ctx.notes.append("regenerated: %s" % changed)
            except Exception as e:  # extraction failed: broken obligation
                import traceback
                traceback.print_exc()
                ctx.broken.append("translator:%s: %r" % (prop, e))
        # 2. model + driver, then proofs
        ok, out, failing = lake_build(["drv_%s" % prop.lower()])
        if not ok:
            print(out[-4000:])
            ctx.broken += ["model-build:" + f for f in failing]
        extra_modules = list(getattr(mod, "EXTRA_MODULES", []))
        okp, outp, failingp = lake_build([props_module] + extra_modules)
        if not okp:
            print(outp[-6000:])
            ctx.broken += ["proof:" + f for f in failingp]
        # 3. audit
        names = theorem_names(props_file)
        extra_obl = getattr(mod, "EXTRA_OBLIGATIONS", [])
        ctx.obligations = names + list(extra_obl)
        hits = source_scan([props_module, "Drivers.%s" % prop] + extra_modules)
        if hits:
            print("AUDIT-FAILURE: forbidden constructs:\n" + "\n".join(hits))
            return 2
        if okp:
            ax, aout = audit_axioms(props_module, names + list(extra_obl), extra_modules)
            for n, a in ax.items():
                if a is None:
                    ctx.broken.append("audit:%s: no #print axioms output" % n)
                elif not set(a) <= ALLOWED_AXIOMS:
                    print("AUDIT-FAILURE: %s depends on %s" % (n, a))
                    return 2
                else:
                    ctx.discharged.append(n)
        model_ok = ok
        if ctx.tier == "thorough" and okp:
            rc, lout = run(["lake", "env", "leanchecker", props_module], cwd=LEAN, timeout=3600)
            ctx.extra["leanchecker"] = "ok" if rc == 0 else "FAILED"
            if rc != 0:
                print(lout[-3000:])
                print("AUDIT-FAILURE: leanchecker rejected %s" % props_module)
                return 2

    # 4. translator round trip + correspondence + oracle
    if model_ok:
        mod.correspond(ctx)
    else:
        ctx.notes.append("model driver unavailable: correspondence skipped, oracle-only search")
        if hasattr(mod, "search_without_model"):
            mod.search_without_model(ctx)

    # 5. a broken obligation / correspondence with no impl!=spec input yet: aimed search
    if (ctx.broken or ctx.disagreements) and not ctx.violations and hasattr(mod, "search"):
        mod.search(ctx)

    # 6. decide
    nviol = 0
    n = 0
    reported = set()
    for v in ctx.violations:
        match = next((f for f in kf if f["signature"] == v["signature"]), None)
        if match:
            ctx.known_hits.append(match["signature"])
            continue
        if v["signature"] in reported:
            continue
        reported.add(v["signature"])
        n += 1
        path = write_replay(ctx, n, {"property": prop, "kind": "failing-input", **v})
        print("VIOLATION property=%s replay=%s" % (prop, path))
        print("  what: %s" % v["what"])
        nviol += 1
        if n >= 5:
            break
    for f in kf:
        if f["signature"] in ctx.known_hits:
            print("KNOWN-FINDING: property=%s %s" % (prop, f["what"]))
        else:
            ctx.notes.append("known finding not reproduced this run: %s" % f["signature"])
    if nviol == 0 and (ctx.broken or ctx.disagreements):
        # the property is no longer shown to hold
        path = write_replay(ctx, 0, {
            "property": prop, "kind": "no-failing-input-found",
            "broken_obligations": ctx.broken,
            "correspondence_disagreements": ctx.disagreements[:10],
        })
        print("VIOLATION property=%s replay=%s no-failing-input-found" % (prop, path))
        for b in ctx.broken[:10]:
            print("  broken: %s" % b)
        for d in ctx.disagreements[:3]:
            print("  impl!=model [%s]: %s %s" % (d["stream"], json.dumps(d["replay"], default=str)[:300], d["detail"][:300]))
        nviol = 1
    for note in ctx.notes:
        print("note: %s" % note)
    write_evidence(ctx, nviol,
                   checker_cmd="cd lean && lake build %s && lake env lean <audit: #print axioms>" % props_module
                   + ("; lake env leanchecker %s" % props_module if ctx.tier == "thorough" else ""),
                   assumptions=getattr(mod, "ASSUMPTIONS", []),
                   rule=getattr(mod, "RULE", ""),
                   explanation=getattr(mod, "EXPLANATION", ""))
    print("%s: obligations %d/%d discharged, %d evaluations (%d distinct non-trivial), %d violations, %.1fs" %
          (prop, len(ctx.discharged), len(ctx.obligations), ctx.evaluations, len(ctx.nontrivial), nviol,
           time.time() - ctx.t0))
    return 1 if nviol else 0
