"""Small helpers shared by property modules."""


def shrink_list(seq, fails, max_steps=400):
    """Greedy delta-debugging: remove elements while `fails` stays true."""
    seq = list(seq)
    steps = 0
    chunk = max(1, len(seq) // 2)
    while chunk >= 1 and steps < max_steps:
        i = 0
        progressed = False
        while i < len(seq) and steps < max_steps:
            cand = seq[:i] + seq[i + chunk:]
            steps += 1
            try:
                bad = bool(cand) and fails(cand)
            except Exception:
                bad = False
            if bad:
                seq = cand
                progressed = True
            else:
                i += chunk
        if chunk == 1 and not progressed:
            break
        chunk = max(1, chunk // 2) if chunk > 1 else (1 if progressed else 0)
    return seq


def rel_close(a, b, rtol=1e-9, atol=1e-300):
    try:
        a = float(a)
        b = float(b)
    except (TypeError, ValueError):
        return a == b
    if a == b:
        return True
    if a != a or b != b:
        return a != a and b != b
    return abs(a - b) <= atol + rtol * max(abs(a), abs(b))
