#!/usr/bin/env python3
"""Regenerates MANIFEST.json from the table below (keeps it valid at all times)."""
import json, sys
from pathlib import Path
HERE = Path(__file__).resolve().parent
ALL = ["C%02d" % i for i in range(1, 21)]
# property -> (technique, level text, level note, design section)
CLAIMED = {}
# only properties the coordinator has integrated (green for seeds 0..4, reviewed) are claimed
READY = (HERE / "claims" / "ready.txt").read_text().split()
for f in sorted((HERE / "claims").glob("C*.json")):
    if f.stem in READY:
        CLAIMED[f.stem] = json.loads(f.read_text())
# known findings: per-property fragments known_findings.d/Cxx.json -> one committed file
kf = {"findings": [], "fixed": []}
for f in sorted((HERE / "known_findings.d").glob("C*.json")):
    frag = json.loads(f.read_text())
    kf["findings"] += frag.get("findings", [])
    kf["fixed"] += frag.get("fixed", [])
(HERE / "known_findings.json").write_text(json.dumps(kf, indent=1) + "\n")
checks = []
for pid in ALL:
    if pid not in CLAIMED:
        continue
    c = CLAIMED[pid]
    checks.append({
        "property_id": pid,
        "quick_cmd": "./check %s --tier quick" % pid,
        "thorough_cmd": "./check %s --tier thorough" % pid,
        "evidence_file": "evidence/%s.json" % pid,
        "replay_cmd_template": "./check %s --replay {path}" % pid,
        "engine": "lean-proof+correspondence",
        "level_claimed": {"category": "proof", "text": c["text"], "design_ref": c.get("design_ref", "DESIGN.md section 8 " + pid)},
        "level_note": c["note"],
        "technique": c["technique"],
    })
na = [{"property_id": pid, "reason": "not claimed yet: Lean model, theorems and correspondence for this property are not built at this commit (work in progress, see DESIGN.md section 14); the technique itself applies"}
      for pid in ALL if pid not in CLAIMED]
m = {
    "version": 1,
    "setup_cmd": "cd lean && lake build " + " ".join("drv_%s SciVerif.Props.%s" % (c["property_id"].lower(), c["property_id"]) for c in checks),
    "hooks": {
        "guard": "VRTULKA23_SCINUMTOOLS_VERIF",
        "enable": "no source hooks are used; checks import /repo/src (working tree) in-process with VRTULKA23_SCINUMTOOLS_VERIF=1 set",
        "baseline_off_cmd": "cd /repo && /venv/bin/python -m pytest -ra -q -p no:cacheprovider --timeout=900 --continue-on-collection-errors",
        "source_commits": [],
        "add_only": True,
    },
    "engines": [{
        "name": "lean-proof+correspondence",
        "path": "lean/ (lake project SciVerif), harness/ (translator + correspondence), check",
        "serves_properties": [c["property_id"] for c in checks],
        "kind_free_text": "Lean 4 theorems about executable models; models tied to /repo by regenerated tables (translator) and by differential correspondence through a JSON line protocol to the compiled Lean driver",
    }],
    "checks": checks,
    "not_applicable": na,
    "notes": "All checks: cwd=/verif, honour VERIF_SEED / VERIF_TIER / VERIF_REPO (default /repo). Exit 0 held, 1 VIOLATION, 2 tool failure.",
}
(HERE / "MANIFEST.json").write_text(json.dumps(m, indent=1) + "\n")
print("claimed:", [c["property_id"] for c in checks])
